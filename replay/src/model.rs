//! Straightforward reference matching engine written from the property statements (C01, C04, C06, C12, C13).
//! Ties in (side, price, time) are broken FIFO by queue sequence number (C05 statement).
use serde::{Deserialize, Serialize};

#[derive(Clone, Copy, PartialEq, Eq, Debug, Serialize, Deserialize)]
#[serde(rename_all = "lowercase")]
pub enum MSide {
    Bid,
    Ask,
}

#[derive(Clone, Copy, PartialEq, Eq, Debug, Serialize)]
pub enum MStatus {
    New,
    Active,
    Filled,
    Cancelled,
    Rejected,
}

#[derive(Clone, Copy, PartialEq, Eq, Debug, Serialize)]
pub struct MOrder {
    pub side: MSide,
    pub status: MStatus,
    pub arr_time: u64,
    pub end_time: u64,
    pub vol: u32,
    pub start_vol: u32,
    pub price: u32,
    pub trader_id: u32,
    pub order_id: usize,
    // queue position: time of (re-)queuing and a sequence number breaking ties FIFO
    #[serde(skip)]
    pub qtime: u64,
    #[serde(skip)]
    pub qseq: u64,
}

#[derive(Clone, Copy, PartialEq, Eq, Debug, Serialize)]
pub struct MTrade {
    pub t: u64,
    pub side: MSide,
    pub price: u32,
    pub vol: u32,
    pub active_order_id: usize,
    pub passive_order_id: usize,
}

#[derive(Clone, Debug)]
pub struct Model {
    pub t: u64,
    pub tick: u32,
    pub trading: bool,
    pub trade_vol: u32,
    pub orders: Vec<MOrder>,
    pub trades: Vec<MTrade>,
    pub seq: u64,
    pub ever_disabled: bool,
}

impl Model {
    pub fn new(t: u64, tick: u32, trading: bool) -> Self {
        Model { t, tick, trading, trade_vol: 0, orders: vec![], trades: vec![], seq: 0, ever_disabled: !trading }
    }

    pub fn is_market(o: &MOrder) -> bool {
        match o.side {
            MSide::Bid => o.price == u32::MAX,
            MSide::Ask => o.price == 0,
        }
    }

    /// Ok(id) iff market or on the grid; otherwise nothing changes
    pub fn create(&mut self, side: MSide, vol: u32, trader: u32, price: Option<u32>) -> Result<usize, (u32, u32)> {
        if let Some(p) = price {
            if p % self.tick != 0 {
                return Err((p, self.tick));
            }
        }
        let id = self.orders.len();
        let price = match (side, price) {
            (_, Some(p)) => p,
            (MSide::Bid, None) => u32::MAX,
            (MSide::Ask, None) => 0,
        };
        self.orders.push(MOrder { side, status: MStatus::New, arr_time: self.t, end_time: u64::MAX, vol, start_vol: vol, price, trader_id: trader, order_id: id, qtime: 0, qseq: 0 });
        Ok(id)
    }

    /// best resting order on `side`: best price, then earliest queue time, then FIFO
    fn best(&self, side: MSide, except: usize) -> Option<usize> {
        let mut best: Option<usize> = None;
        for (i, o) in self.orders.iter().enumerate() {
            if i == except || o.status != MStatus::Active || o.side != side {
                continue;
            }
            best = match best {
                None => Some(i),
                Some(b) => {
                    let ob = &self.orders[b];
                    let better_price = match side {
                        MSide::Ask => o.price < ob.price,
                        MSide::Bid => o.price > ob.price,
                    };
                    let same = o.price == ob.price;
                    if better_price || (same && (o.qtime, o.qseq) < (ob.qtime, ob.qseq)) {
                        Some(i)
                    } else {
                        Some(b)
                    }
                }
            };
        }
        best
    }

    fn run_match(&mut self, id: usize) {
        loop {
            let agg = self.orders[id];
            if agg.vol == 0 {
                break;
            }
            let opp = match agg.side {
                MSide::Bid => MSide::Ask,
                MSide::Ask => MSide::Bid,
            };
            let Some(b) = self.best(opp, id) else { break };
            let pass = self.orders[b];
            let admits = match agg.side {
                MSide::Bid => agg.price >= pass.price,
                MSide::Ask => agg.price <= pass.price,
            };
            if !admits {
                break;
            }
            let v = agg.vol.min(pass.vol);
            self.orders[id].vol -= v;
            self.orders[b].vol -= v;
            self.trades.push(MTrade { t: self.t, side: pass.side, price: pass.price, vol: v, active_order_id: id, passive_order_id: b });
            self.trade_vol = self.trade_vol.wrapping_add(v);
            if self.orders[b].vol == 0 {
                self.orders[b].status = MStatus::Filled;
                self.orders[b].end_time = self.t;
            }
            if self.orders[id].vol == 0 {
                self.orders[id].status = MStatus::Filled;
                self.orders[id].end_time = self.t;
            }
        }
    }

    fn queue(&mut self, id: usize) {
        self.seq += 1;
        self.orders[id].qtime = self.t;
        self.orders[id].qseq = self.seq;
    }

    pub fn place(&mut self, id: usize) {
        if self.orders[id].status != MStatus::New {
            return;
        }
        let market = Self::is_market(&self.orders[id]);
        self.orders[id].arr_time = self.t;
        if market {
            if self.trading {
                self.orders[id].status = MStatus::Active;
                self.run_match(id);
                if self.orders[id].status != MStatus::Filled {
                    self.orders[id].status = MStatus::Cancelled;
                    self.orders[id].end_time = self.t;
                }
            } else {
                self.orders[id].status = MStatus::Rejected;
                self.orders[id].end_time = self.t;
            }
        } else {
            self.orders[id].status = MStatus::Active;
            if self.trading {
                self.run_match(id);
            }
            if self.orders[id].status != MStatus::Filled {
                self.queue(id);
            }
        }
    }

    pub fn cancel(&mut self, id: usize) {
        if self.orders[id].status == MStatus::Active {
            self.orders[id].status = MStatus::Cancelled;
            self.orders[id].end_time = self.t;
        }
    }

    pub fn modify(&mut self, id: usize, new_price: Option<u32>, new_vol: Option<u32>) {
        if self.orders[id].status != MStatus::Active {
            return;
        }
        let cur = self.orders[id];
        match (new_price, new_vol) {
            (None, None) => {}
            (None, Some(v)) if v < cur.vol => {
                self.orders[id].vol = v;
            }
            (p, v) => {
                let p = p.unwrap_or(cur.price);
                let v = v.unwrap_or(cur.vol);
                // taken out of the book and re-entered as if newly arrived, keeping id / side / trader / arr_time / start_vol
                self.orders[id].price = p;
                self.orders[id].vol = v;
                if self.trading {
                    self.run_match(id);
                }
                if self.orders[id].status != MStatus::Filled {
                    self.queue(id);
                }
            }
        }
    }
}
