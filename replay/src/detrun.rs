//! Bounded stand-in for the part of C09 that no contract reaches (never decides a proof): whole simulations through the real runners,
//! repeated in SEPARATE OS PROCESSES and through both progress-bar branches, compared by a digest of every order, trade, recorded
//! series and per-step traded volume; and different seeds must give different runs.
//!
//!   replay simdigest --config k --seed s --progress 0|1     one run, prints its digest (used by `determinism`, in child processes)
//!   replay determinism [--seed s]                           exit 0 = all digests agree as required, 1 = a disagreement (printed as JSON)
use bourse_book::types::{Order, Trade};
use bourse_de::agents::{Agent, AgentSet, MarketAgent, MarketAgentSet, MomentumAgent, MomentumMarketAgent, MomentumParams, NoiseAgent, NoiseAgentParams, NoiseMarketAgent, RandomAgents, RandomMarketAgents};
use bourse_de::{market_sim_runner, sim_runner, Env, Level2DataRecords, MarketEnv};

#[derive(AgentSet)]
struct Mixed {
    pub momentum: MomentumAgent,
    pub noise: NoiseAgent,
    pub random: RandomAgents,
}

#[derive(AgentSet)]
struct NoiseOnly {
    pub makers: NoiseAgent,
    pub takers: NoiseAgent,
}

#[derive(AgentSet)]
struct RandomOnly {
    pub near: RandomAgents,
    pub far: RandomAgents,
}

#[derive(MarketAgentSet)]
struct MixedMarket {
    pub random0: RandomMarketAgents,
    pub noise1: NoiseMarketAgent,
    pub momentum1: MomentumMarketAgent,
    pub random1: RandomMarketAgents,
}

struct Fnv(u64);
impl Fnv {
    fn new() -> Self { Fnv(0xcbf29ce484222325) }
    fn u(&mut self, x: u64) { for b in x.to_le_bytes() { self.0 ^= b as u64; self.0 = self.0.wrapping_mul(0x100000001b3); } }
    fn order(&mut self, o: &Order) {
        for x in [o.side as u64, u8::from(o.status) as u64, o.arr_time, o.end_time, o.vol as u64, o.start_vol as u64, o.price as u64, o.trader_id as u64, o.order_id as u64] { self.u(x); }
    }
    fn trade(&mut self, t: &Trade) {
        for x in [t.t, t.side as u64, t.price as u64, t.vol as u64, t.active_order_id as u64, t.passive_order_id as u64] { self.u(x); }
    }
    fn records<const N: usize>(&mut self, r: &Level2DataRecords<N>) {
        for v in [&r.prices.0, &r.prices.1, &r.volumes.0, &r.volumes.1] { self.u(v.len() as u64); for x in v.iter() { self.u(*x as u64); } }
        for side in [&r.volumes_at_levels.0, &r.volumes_at_levels.1, &r.orders_at_levels.0, &r.orders_at_levels.1] {
            for v in side.iter() { self.u(v.len() as u64); for x in v.iter() { self.u(*x as u64); } }
        }
    }
}

fn noise(tick: u32, pl: f32, pm: f32) -> NoiseAgentParams {
    NoiseAgentParams { tick_size: tick, p_limit: pl, p_market: pm, p_cancel: 0.1, trade_vol: 50, price_dist_mu: 0.0, price_dist_sigma: 1.0 }
}
fn momentum(tick: u32) -> MomentumParams {
    MomentumParams { tick_size: tick, p_cancel: 0.1, trade_vol: 40, decay: 0.6, demand: 5.0, scale: 0.5, order_ratio: 1.0, price_dist_mu: 0.0, price_dist_sigma: 1.0 }
}

pub const N_CONFIGS: usize = 5;

/// one complete simulation through the real runner; (digest, number of orders, number of trades)
pub fn digest(config: usize, seed: u64, progress: bool) -> (u64, usize, usize) {
    let mut h = Fnv::new();
    // step counts on both sides of 100 and 200, odd ones included (a progress bar that advances in strides must not change how many steps run)
    // (the long, odd run uses random agents only: with the noise / momentum agents a long run can reach the recorded clamp finding of C16 and abort)
    let steps = [40u64, 60, 80, 60, 255][config % N_CONFIGS];
    match config % N_CONFIGS {
        4 => {
            let mut env: Env = Env::new(0, 2, 100_000, true);
            let mut agents = RandomOnly { near: RandomAgents::new(10, (45, 55), (10, 30), 2, 0.6), far: RandomAgents::new(6, (30, 70), (5, 50), 2, 0.3) };
            sim_runner(&mut env, &mut agents, seed, steps, progress);
            let orders = env.get_orders();
            let no = orders.len();
            for o in orders.iter() { h.order(o); }
            let nt = env.get_trades().len();
            for t in env.get_trades().iter() { h.trade(t); }
            h.records(env.get_level_2_data_history());
            for v in env.get_trade_vols().iter() { h.u(*v as u64); }
            h.u(env.get_orderbook().get_time());
            (h.0, no, nt)
        }
        0 | 1 => {
            let tick = if config % N_CONFIGS == 0 { 1 } else { 2 };
            let mut env: Env = Env::new(0, tick, 100_000, true);
            let (no, nt);
            if config % N_CONFIGS == 0 {
                let mut agents = Mixed { momentum: MomentumAgent::new(0, 6, momentum(tick)), noise: NoiseAgent::new(10, 8, noise(tick, 0.4, 0.2)), random: RandomAgents::new(12, (40, 60), (10, 30), tick, 0.5) };
                sim_runner(&mut env, &mut agents, seed, steps, progress);
            } else {
                let mut agents = NoiseOnly { makers: NoiseAgent::new(0, 10, noise(tick, 0.6, 0.0)), takers: NoiseAgent::new(10, 5, noise(tick, 0.1, 0.5)) };
                // a starting book, so that the noise agents have a mid-price to quote around
                env.place_order(bourse_book::types::Side::Bid, 500, 99, Some(100)).unwrap();
                env.place_order(bourse_book::types::Side::Ask, 500, 99, Some(104)).unwrap();
                sim_runner(&mut env, &mut agents, seed, steps, progress);
            }
            let orders = env.get_orders();
            no = orders.len();
            for o in orders.iter() { h.order(o); }
            nt = env.get_trades().len();
            for t in env.get_trades().iter() { h.trade(t); }
            h.records(env.get_level_2_data_history());
            for v in env.get_trade_vols().iter() { h.u(*v as u64); }
            h.u(env.get_orderbook().get_time());
            (h.0, no, nt)
        }
        _ => {
            let ticks = if config % N_CONFIGS == 2 { [1u32, 2] } else { [5u32, 1] };
            let mut env: MarketEnv<2, 4> = MarketEnv::new(0, ticks, 100_000, true);
            env.place_order(1, bourse_book::types::Side::Bid, 500, 99, Some(100 * ticks[1])).unwrap();
            env.place_order(1, bourse_book::types::Side::Ask, 500, 99, Some(104 * ticks[1])).unwrap();
            let mut agents = MixedMarket {
                random0: RandomMarketAgents::new(0, 10, (40, 60), (10, 30), ticks[0], 0.5),
                noise1: NoiseMarketAgent::new(1, 20, 8, noise(ticks[1], 0.4, 0.2)),
                momentum1: MomentumMarketAgent::new(40, 5, 1, momentum(ticks[1])),
                random1: RandomMarketAgents::new(1, 6, (95, 110), (10, 30), ticks[1], 0.3),
            };
            market_sim_runner(&mut env, &mut agents, seed, steps, progress);
            let (mut no, mut nt) = (0, 0);
            for a in 0..2 {
                let orders = env.get_orders(a);
                no += orders.len();
                for o in orders.iter() { h.order(o); }
                nt += env.get_trades(a).len();
                for t in env.get_trades(a).iter() { h.trade(t); }
                h.records(env.get_level_2_data_history(a));
                for v in env.get_trade_vols(a).iter() { h.u(*v as u64); }
            }
            h.u(env.get_market().get_time());
            (h.0, no, nt)
        }
    }
}

fn child(config: usize, seed: u64, progress: bool) -> Result<(u64, usize, usize), String> {
    let exe = std::env::current_exe().map_err(|e| e.to_string())?;
    let out = std::process::Command::new(exe)
        .args(["simdigest", "--config", &config.to_string(), "--seed", &seed.to_string(), "--progress", if progress { "1" } else { "0" }])
        .output().map_err(|e| e.to_string())?;
    let text = String::from_utf8_lossy(&out.stdout);
    let v: Vec<&str> = text.trim().split_whitespace().collect();
    if !out.status.success() || v.len() != 3 {
        return Err(format!("child run (config {}, seed {}, progress {}) ended with {:?}: {}", config, seed, progress, out.status.code(), String::from_utf8_lossy(&out.stderr).chars().rev().take(300).collect::<String>().chars().rev().collect::<String>()));
    }
    Ok((v[0].parse().unwrap_or(0), v[1].parse().unwrap_or(0), v[2].parse().unwrap_or(0)))
}

/// -> (number of simulations run, disagreements)
pub fn determinism(seed0: u64) -> (usize, Vec<String>) {
    let mut bad = vec![];
    let mut runs = 0;
    for config in 0..N_CONFIGS {
        let mut per_seed = vec![];
        for k in 0..6u64 {
            // "for all seeds": the special values first (0, 1, all ones), then seeds derived from the run's base seed
            let seed = match k { 0 => 0u64, 1 => u64::MAX, 2 => 1u64 << 32, _ => seed0.wrapping_mul(7919).wrapping_add(101 + 13 * k + config as u64) };
            let here = digest(config, seed, false);                 // this process
            let again = digest(config, seed, false);                // the same process, again
            let other = child(config, seed, false);                 // a separate OS process
            let bar = child(config, seed, true);                    // a separate OS process, progress-bar branch
            runs += 4;
            if here != again {
                bad.push(format!("config {} seed {}: two runs in one process differ ({:?} vs {:?})", config, seed, here, again));
            }
            match other {
                Ok(o) if o != here => bad.push(format!("config {} seed {}: a run in a separate process differs ({:?} vs {:?})", config, seed, o, here)),
                Err(e) => bad.push(e),
                _ => {}
            }
            match bar {
                Ok(o) if o != here => bad.push(format!("config {} seed {}: the progress-bar branch differs from the plain branch ({:?} vs {:?})", config, seed, o, here)),
                Err(e) => bad.push(e),
                _ => {}
            }
            if here.1 == 0 {
                bad.push(format!("config {} seed {}: the simulation produced no orders (vacuous run)", config, seed));
            }
            per_seed.push(here.0);
        }
        if per_seed.iter().all(|d| *d == per_seed[0]) {
            bad.push(format!("config {}: six different seeds give the same run (digest {})", config, per_seed[0]));
        }
    }
    (runs, bad)
}
