//! Rust side of the Python/Rust differential twin of C18 (bounded stand-in and witness search; never decides a proof).
//!
//!   replay pytwin <script.json>
//!
//! The script is a constructor plus a list of calls over the non-numpy Python API of `bourse.core.OrderBook` / `StepEnv`, written by
//! `tools/py_bounded.py`, which executes the same script on the compiled extension module.  This side executes it on the Rust core
//! (`bourse_book::OrderBook`, `bourse_de::Env` with `Xoroshiro128StarStar::seed_from_u64(seed)`, exactly the documented construction)
//! and prints, per call, the return value and the full observable state in the documented Python encodings (True = bid;
//! 0 New, 1 Active, 2 Filled, 3 Cancelled, 4 Rejected).  The encodings are written out here by hand from the property text, not
//! taken from the repository's `From` impls, so a changed encoding in the repository shows up as a difference.
use bourse_book::types::{Order, Side, Status, Trade};
use bourse_book::OrderBook;
use bourse_de::Env;
use rand_xoshiro::rand_core::SeedableRng;
use rand_xoshiro::Xoroshiro128StarStar;
use serde_json::{json, Value};

fn side_code(s: Side) -> bool {
    match s {
        Side::Bid => true,
        Side::Ask => false,
    }
}

fn status_code(s: Status) -> u8 {
    match s {
        Status::New => 0,
        Status::Active => 1,
        Status::Filled => 2,
        Status::Cancelled => 3,
        Status::Rejected => 4,
    }
}

fn order_rec(o: &Order) -> Value {
    json!([side_code(o.side), status_code(o.status), o.arr_time, o.end_time, o.vol, o.start_vol, o.price, o.trader_id, o.order_id])
}

fn trade_rec(t: &Trade) -> Value {
    json!([t.t, side_code(t.side), t.price, t.vol, t.active_order_id, t.passive_order_id])
}

fn opt_u32(v: &Value) -> Option<u32> {
    v.as_u64().map(|x| x as u32)
}

fn book_obs(b: &OrderBook) -> Value {
    json!({
        "orders": b.get_orders().iter().map(|o| order_rec(o)).collect::<Vec<_>>(),
        "trades": b.get_trades().iter().map(trade_rec).collect::<Vec<_>>(),
        "bid_ask": [b.bid_ask().0, b.bid_ask().1],
        "bid_vol": b.bid_vol(), "ask_vol": b.ask_vol(),
        "best_bid_vol": b.bid_best_vol(), "best_ask_vol": b.ask_best_vol(),
        "best_bid_vol_and_orders": [b.bid_best_vol_and_orders().0, b.bid_best_vol_and_orders().1],
        "best_ask_vol_and_orders": [b.ask_best_vol_and_orders().0, b.ask_best_vol_and_orders().1],
        "statuses": b.get_orders().iter().map(|o| status_code(b.order(o.order_id).status)).collect::<Vec<_>>(),
    })
}

fn env_obs(e: &Env) -> Value {
    let b = e.get_orderbook();
    let l2 = e.level_2_data();
    json!({
        "orders": e.get_orders().iter().map(|o| order_rec(o)).collect::<Vec<_>>(),
        "trades": e.get_trades().iter().map(trade_rec).collect::<Vec<_>>(),
        "time": b.get_time(),
        "bid_ask": [l2.bid_price, l2.ask_price],
        "bid_vol": l2.bid_vol, "ask_vol": l2.ask_vol,
        "best_bid_vol": l2.bid_price_levels[0].0, "best_ask_vol": l2.ask_price_levels[0].0,
        "best_bid_vol_and_orders": [l2.bid_price_levels[0].0, l2.bid_price_levels[0].1],
        "best_ask_vol_and_orders": [l2.ask_price_levels[0].0, l2.ask_price_levels[0].1],
        "trade_vol": b.get_trade_vol(),
        "statuses": e.get_orders().iter().map(|o| status_code(e.order_status(o.order_id))).collect::<Vec<_>>(),
        "prices": [e.get_prices().0.clone(), e.get_prices().1.clone()],
        "volumes": [e.get_volumes().0.clone(), e.get_volumes().1.clone()],
        "touch_volumes": [e.get_touch_volumes().0.clone(), e.get_touch_volumes().1.clone()],
        "touch_order_counts": [e.get_touch_order_counts().0.clone(), e.get_touch_order_counts().1.clone()],
        "trade_volumes": e.get_trade_vols().clone(),
    })
}

pub fn run(script: &Value) -> Value {
    let kind = script["kind"].as_str().unwrap_or("book");
    let tick = script["tick"].as_u64().unwrap() as u32;
    let start = script["start_time"].as_u64().unwrap();
    let trading = script["trading"].as_bool().unwrap_or(true);
    let calls = script["calls"].as_array().unwrap();
    let mut out = Vec::new();
    if kind == "book" {
        let mut b: OrderBook = OrderBook::new(start, tick, trading);
        out.push(json!({"ret": null, "obs": book_obs(&b)}));
        for c in calls {
            let name = c[0].as_str().unwrap();
            let ret = match name {
                "place_order" => {
                    let side = if c[1].as_bool().unwrap() { Side::Bid } else { Side::Ask };
                    match b.create_and_place_order(side, c[2].as_u64().unwrap() as u32, c[3].as_u64().unwrap() as u32, opt_u32(&c[4])) {
                        Ok(i) => json!(i),
                        Err(_) => json!("ValueError"),
                    }
                }
                "cancel_order" => {
                    b.cancel_order(c[1].as_u64().unwrap() as usize);
                    Value::Null
                }
                "modify_order" => {
                    b.modify_order(c[1].as_u64().unwrap() as usize, opt_u32(&c[2]), opt_u32(&c[3]));
                    Value::Null
                }
                "set_time" => {
                    b.set_time(c[1].as_u64().unwrap());
                    Value::Null
                }
                "enable_trading" => {
                    b.enable_trading();
                    Value::Null
                }
                "disable_trading" => {
                    b.disable_trading();
                    Value::Null
                }
                _ => json!("unknown call"),
            };
            out.push(json!({"ret": ret, "obs": book_obs(&b)}));
        }
    } else {
        let seed = script["seed"].as_u64().unwrap();
        let step_size = script["step_size"].as_u64().unwrap();
        let mut e: Env = Env::new(start, tick, step_size, trading);
        let mut rng = Xoroshiro128StarStar::seed_from_u64(seed);
        out.push(json!({"ret": null, "obs": env_obs(&e)}));
        for c in calls {
            let name = c[0].as_str().unwrap();
            let ret = match name {
                "place_order" => {
                    let side = if c[1].as_bool().unwrap() { Side::Bid } else { Side::Ask };
                    match e.place_order(side, c[2].as_u64().unwrap() as u32, c[3].as_u64().unwrap() as u32, opt_u32(&c[4])) {
                        Ok(i) => json!(i),
                        Err(_) => json!("ValueError"),
                    }
                }
                "cancel_order" => {
                    e.cancel_order(c[1].as_u64().unwrap() as usize);
                    Value::Null
                }
                "modify_order" => {
                    e.modify_order(c[1].as_u64().unwrap() as usize, opt_u32(&c[2]), opt_u32(&c[3]));
                    Value::Null
                }
                "step" => {
                    e.step(&mut rng);
                    Value::Null
                }
                "enable_trading" => {
                    e.enable_trading();
                    Value::Null
                }
                "disable_trading" => {
                    e.disable_trading();
                    Value::Null
                }
                _ => json!("unknown call"),
            };
            out.push(json!({"ret": ret, "obs": env_obs(&e)}));
        }
    }
    Value::Array(out)
}
