//! Bounded stand-in / witness search for C20 (never decides a proof): the REAL derive macros of the working tree, expanded by the compiler on a fixed family
//! of struct shapes in this crate, and executed.  Every member is a probe that draws one number from the shared generator and places one order carrying its
//! own id and that number on the shared environment: the environment's order list is then the sequence of (member, draw) in call order, and must equal the
//! hand-written sequence "every member once, in declaration order, same environment, same generator".
use bourse_book::types::Side;
use bourse_de::agents::{Agent, AgentSet, MarketAgent, MarketAgentSet};
use bourse_de::{Env, MarketEnv};
use rand::{RngCore, SeedableRng};
use rand_xoshiro::Xoroshiro128StarStar;

pub struct Probe(pub u32);
pub struct Probe2(pub u32);
impl Agent for Probe {
    fn update<R: RngCore>(&mut self, env: &mut Env, rng: &mut R) {
        let v = rng.next_u32() % 7 + 1;
        env.place_order(Side::Bid, v, self.0, Some(100)).unwrap();
    }
}
impl Agent for Probe2 {
    fn update<R: RngCore>(&mut self, env: &mut Env, rng: &mut R) {
        let v = rng.next_u32() % 5 + 10;
        env.place_order(Side::Ask, v, self.0, Some(200)).unwrap();
    }
}
pub struct MProbe(pub u32);
pub struct MProbe2(pub u32);
impl MarketAgent for MProbe {
    fn update<R: RngCore, const M: usize, const N: usize>(&mut self, env: &mut MarketEnv<M, N>, rng: &mut R) {
        let v = rng.next_u32() % 7 + 1;
        env.place_order(0, Side::Bid, v, self.0, Some(100)).unwrap();
    }
}
impl MarketAgent for MProbe2 {
    fn update<R: RngCore, const M: usize, const N: usize>(&mut self, env: &mut MarketEnv<M, N>, rng: &mut R) {
        let v = rng.next_u32() % 5 + 10;
        env.place_order(0, Side::Ask, v, self.0, Some(200)).unwrap();
    }
}

macro_rules! same_ty { ($t:ty) => { $t }; }

// ---- single-asset shapes ----------------------------------------------------------------------------------------------
#[derive(AgentSet)]
pub struct SPair { zulu: Probe, alpha: Probe }
#[derive(AgentSet)]
pub struct SAba { pub m: Probe, k: Probe2, pub(crate) b: Probe }
#[derive(AgentSet)]
pub struct SRuns {
    a: Probe,
    b: Probe,
    /// a documented member
    c: Probe2,
    #[allow(dead_code)]
    d: Probe,
    e: Probe,
    #[cfg(all())]
    f: Probe,
}
#[derive(AgentSet)]
pub struct SNested { first: Probe, inner: SPair, second_inner: SAba, last: Probe2 }
#[derive(AgentSet)]
pub struct SOdd { p0: Probe, p1: (Probe), p2: same_ty!(Probe), p3: Probe2, p4: (Probe2) }
macro_rules! decl_sfrag { ($t0:ty, $t1:ty) => { #[derive(AgentSet)] pub struct SFrag { g0: $t0, g1: Probe, g2: $t1, g3: Probe } }; }
decl_sfrag!(Probe, Probe2);
#[derive(AgentSet)]
pub struct SOne { only: Probe2 }

// two structs with the SAME NAME and the same number of fields in different modules, declared in different orders (a derive that remembers anything about an
// earlier expansion - by name, by arity - gets the second one wrong), for each derive and across the two derives
pub mod first { use super::*; #[derive(AgentSet)] pub struct Twin { pub a: Probe, pub b: Probe2, pub c: Probe } }
pub mod second { use super::*; #[derive(AgentSet)] pub struct Twin { pub c: Probe, pub a: Probe, pub b: Probe2 } }
pub mod third { use super::*; #[derive(MarketAgentSet)] pub struct Twin { pub b: MProbe2, pub c: MProbe, pub a: MProbe } }
pub mod fourth { use super::*; #[derive(MarketAgentSet)] pub struct Twin { pub a: MProbe, pub c: MProbe, pub b: MProbe2 } }

// ---- multi-asset shapes -----------------------------------------------------------------------------------------------
#[derive(MarketAgentSet)]
pub struct MPair { zulu: MProbe, alpha: MProbe }
#[derive(MarketAgentSet)]
pub struct MAba { pub m: MProbe, k: MProbe2, pub(crate) b: MProbe }
#[derive(MarketAgentSet)]
pub struct MRuns {
    a: MProbe,
    b: MProbe,
    /// a documented member
    c: MProbe2,
    #[allow(dead_code)]
    d: MProbe,
    e: MProbe,
    #[cfg(all())]
    f: MProbe,
}
#[derive(MarketAgentSet)]
pub struct MNested { first: MProbe, inner: MPair, second_inner: MAba, last: MProbe2 }
#[derive(MarketAgentSet)]
pub struct MOdd { p0: MProbe, p1: (MProbe), p2: same_ty!(MProbe), p3: MProbe2, p4: (MProbe2) }
macro_rules! decl_mfrag { ($t0:ty, $t1:ty) => { #[derive(MarketAgentSet)] pub struct MFrag { g0: $t0, g1: MProbe, g2: $t1, g3: MProbe } }; }
decl_mfrag!(MProbe, MProbe2);

/// expected order list: members in declaration order; `kind` false = Probe (bid, draw % 7 + 1), true = Probe2 (ask, draw % 5 + 10)
fn expected(members: &[(u32, bool)], rounds: usize, seed: u64) -> Vec<(u32, u32, bool)> {
    let mut rng = Xoroshiro128StarStar::seed_from_u64(seed);
    let mut out = vec![];
    for _ in 0..rounds {
        for (id, second) in members {
            let d = rng.next_u32();
            out.push((*id, if *second { d % 5 + 10 } else { d % 7 + 1 }, *second));
        }
    }
    out
}

fn run_single<A: AgentSet>(name: &str, set: &mut A, members: &[(u32, bool)], seed: u64, bad: &mut Vec<String>) {
    let mut env: Env = Env::new(0, 1, 1000, true);
    let mut rng = Xoroshiro128StarStar::seed_from_u64(seed);
    for _ in 0..2 {
        set.update(&mut env, &mut rng);
    }
    let got: Vec<(u32, u32, bool)> = env.get_orders().iter().map(|o| (o.trader_id, o.start_vol, matches!(o.side, Side::Ask))).collect();
    let want = expected(members, 2, seed);
    if got != want {
        bad.push(format!("derive(AgentSet) on {}: two updates gave the (member, draw) sequence {:?}; every member once, in declaration order, on the shared environment and generator gives {:?}", name, got, want));
    }
}

fn run_market<A: MarketAgentSet>(name: &str, set: &mut A, members: &[(u32, bool)], seed: u64, bad: &mut Vec<String>) {
    let mut env: MarketEnv<2, 3> = MarketEnv::new(0, [1, 1], 1000, true);
    let mut rng = Xoroshiro128StarStar::seed_from_u64(seed);
    for _ in 0..2 {
        set.update(&mut env, &mut rng);
    }
    let got: Vec<(u32, u32, bool)> = env.get_orders(0).iter().map(|o| (o.trader_id, o.start_vol, matches!(o.side, Side::Ask))).collect();
    let want = expected(members, 2, seed);
    if got != want {
        bad.push(format!("derive(MarketAgentSet) on {}: two updates gave the (member, draw) sequence {:?}; every member once, in declaration order, on the shared environment and generator gives {:?}", name, got, want));
    }
}

/// -> (shapes executed, disagreements)
pub fn derive_twin(seed: u64) -> (usize, Vec<String>) {
    let mut bad = vec![];
    let s = seed.wrapping_mul(31).wrapping_add(7);
    run_single("SPair", &mut SPair { zulu: Probe(1), alpha: Probe(2) }, &[(1, false), (2, false)], s, &mut bad);
    run_single("SAba", &mut SAba { m: Probe(1), k: Probe2(2), b: Probe(3) }, &[(1, false), (2, true), (3, false)], s, &mut bad);
    run_single("SRuns", &mut SRuns { a: Probe(1), b: Probe(2), c: Probe2(3), d: Probe(4), e: Probe(5), f: Probe(6) }, &[(1, false), (2, false), (3, true), (4, false), (5, false), (6, false)], s, &mut bad);
    run_single("SNested", &mut SNested { first: Probe(1), inner: SPair { zulu: Probe(2), alpha: Probe(3) }, second_inner: SAba { m: Probe(4), k: Probe2(5), b: Probe(6) }, last: Probe2(7) },
               &[(1, false), (2, false), (3, false), (4, false), (5, true), (6, false), (7, true)], s, &mut bad);
    run_single("SOdd", &mut SOdd { p0: Probe(1), p1: Probe(2), p2: Probe(3), p3: Probe2(4), p4: Probe2(5) }, &[(1, false), (2, false), (3, false), (4, true), (5, true)], s, &mut bad);
    run_single("SFrag", &mut SFrag { g0: Probe(1), g1: Probe(2), g2: Probe2(3), g3: Probe(4) }, &[(1, false), (2, false), (3, true), (4, false)], s, &mut bad);
    run_single("SOne", &mut SOne { only: Probe2(1) }, &[(1, true)], s, &mut bad);
    run_single("first::Twin", &mut first::Twin { a: Probe(1), b: Probe2(2), c: Probe(3) }, &[(1, false), (2, true), (3, false)], s, &mut bad);
    run_single("second::Twin", &mut second::Twin { c: Probe(3), a: Probe(1), b: Probe2(2) }, &[(3, false), (1, false), (2, true)], s, &mut bad);
    run_market("third::Twin", &mut third::Twin { b: MProbe2(2), c: MProbe(3), a: MProbe(1) }, &[(2, true), (3, false), (1, false)], s, &mut bad);
    run_market("fourth::Twin", &mut fourth::Twin { a: MProbe(1), c: MProbe(3), b: MProbe2(2) }, &[(1, false), (3, false), (2, true)], s, &mut bad);
    run_market("MPair", &mut MPair { zulu: MProbe(1), alpha: MProbe(2) }, &[(1, false), (2, false)], s, &mut bad);
    run_market("MAba", &mut MAba { m: MProbe(1), k: MProbe2(2), b: MProbe(3) }, &[(1, false), (2, true), (3, false)], s, &mut bad);
    run_market("MRuns", &mut MRuns { a: MProbe(1), b: MProbe(2), c: MProbe2(3), d: MProbe(4), e: MProbe(5), f: MProbe(6) }, &[(1, false), (2, false), (3, true), (4, false), (5, false), (6, false)], s, &mut bad);
    run_market("MNested", &mut MNested { first: MProbe(1), inner: MPair { zulu: MProbe(2), alpha: MProbe(3) }, second_inner: MAba { m: MProbe(4), k: MProbe2(5), b: MProbe(6) }, last: MProbe2(7) },
               &[(1, false), (2, false), (3, false), (4, false), (5, true), (6, false), (7, true)], s, &mut bad);
    run_market("MOdd", &mut MOdd { p0: MProbe(1), p1: MProbe(2), p2: MProbe(3), p3: MProbe2(4), p4: MProbe2(5) }, &[(1, false), (2, false), (3, false), (4, true), (5, true)], s, &mut bad);
    run_market("MFrag", &mut MFrag { g0: MProbe(1), g1: MProbe(2), g2: MProbe2(3), g3: MProbe(4) }, &[(1, false), (2, false), (3, true), (4, false)], s, &mut bad);
    (17, bad)
}
