//! Environment-level histories (C05 step overrun, C08, C10, C11, C14): executed on the real `Env` / `MarketEnv`, compared with plain
//! order books that are fed the same instructions in the schedule the shuffle produced (reproduced with a clone of the generator -
//! `shuffle` depends only on the slice length and the generator state).
use crate::model::MSide;
use crate::Failure;
use bourse_book::types::{Event, Level2Data, Order, Side, Status, Trade};
use bourse_book::OrderBook;
use bourse_de::{Env, MarketEnv};
use rand::seq::SliceRandom;
use rand::{Rng, SeedableRng};
use rand_xoshiro::Xoroshiro128StarStar;
use serde::{Deserialize, Serialize};

#[derive(Clone, Debug, Serialize, Deserialize, PartialEq)]
#[serde(tag = "op", rename_all = "snake_case")]
pub enum EOp {
    Place { asset: usize, side: MSide, vol: u32, trader: u32, price: Option<u32> },
    Cancel { asset: usize, id: usize },
    Modify { asset: usize, id: usize, price: Option<u32>, vol: Option<u32> },
    Enable,
    Disable,
    Step,
}

#[derive(Clone, Debug, Serialize, Deserialize)]
pub struct EnvHistory {
    pub env: String, // "env" | "market_env"
    pub ticks: Vec<u32>,
    pub step_size: u64,
    pub trading: bool,
    pub seed: u64,
    #[serde(default)]
    pub t0: u64,
    pub ops: Vec<EOp>,
    #[serde(default)]
    pub note: String,
}

const L: usize = 3;
/// assets of the multi-asset environment under test: MORE assets than published levels, so that a mixed-up const generic (a loop over LEVELS that should run over ASSETS) shows
const MA: usize = 4;

fn sd(s: MSide) -> Side {
    match s {
        MSide::Bid => Side::Bid,
        MSide::Ask => Side::Ask,
    }
}
fn okey(o: &Order) -> (u8, u8, u64, u64, u32, u32, u32, u32, usize) {
    (o.side as u8, u8::from(o.status), o.arr_time, o.end_time, o.vol, o.start_vol, o.price, o.trader_id, o.order_id)
}
fn tkey(t: &Trade) -> (u64, u8, u32, u32, usize, usize) {
    (t.t, t.side as u8, t.price, t.vol, t.active_order_id, t.passive_order_id)
}
fn l2key(d: &Level2Data<L>) -> (u32, u32, u32, u32, Vec<(u32, u32)>, Vec<(u32, u32)>) {
    (d.bid_price, d.ask_price, d.bid_vol, d.ask_vol, d.bid_price_levels.to_vec(), d.ask_price_levels.to_vec())
}

/// a uniform face over Env<L> and MarketEnv<MA, L>
trait Sim {
    fn assets(&self) -> usize;
    fn place(&mut self, a: usize, s: Side, v: u32, tr: u32, p: Option<u32>) -> Result<usize, ()>;
    fn cancel(&mut self, a: usize, id: usize);
    fn modify(&mut self, a: usize, id: usize, p: Option<u32>, v: Option<u32>);
    fn toggle(&mut self, on: bool);
    fn step(&mut self, rng: &mut Xoroshiro128StarStar);
    fn book(&self, a: usize) -> &OrderBook<L>;
    fn cached(&self, a: usize) -> &Level2Data<L>;
    fn n_orders(&self, a: usize) -> usize;
    fn series(&self, a: usize) -> Vec<Vec<u32>>; // prices b,a, volumes b,a, then per level: vol b, cnt b, vol a, cnt a
    fn trade_vols(&self, a: usize) -> Vec<u32>;
    fn queue_len(&self) -> usize;
}

impl Sim for Env<L> {
    fn assets(&self) -> usize { 1 }
    fn place(&mut self, _a: usize, s: Side, v: u32, tr: u32, p: Option<u32>) -> Result<usize, ()> { self.place_order(s, v, tr, p).map_err(|_| ()) }
    fn cancel(&mut self, _a: usize, id: usize) { self.cancel_order(id) }
    fn modify(&mut self, _a: usize, id: usize, p: Option<u32>, v: Option<u32>) { self.modify_order(id, p, v) }
    fn toggle(&mut self, on: bool) { if on { self.enable_trading() } else { self.disable_trading() } }
    fn step(&mut self, rng: &mut Xoroshiro128StarStar) { Env::step(self, rng) }
    fn book(&self, _a: usize) -> &OrderBook<L> { self.get_orderbook() }
    fn cached(&self, _a: usize) -> &Level2Data<L> { self.level_2_data() }
    fn n_orders(&self, _a: usize) -> usize { self.get_orders().len() }
    fn series(&self, _a: usize) -> Vec<Vec<u32>> {
        let r = self.get_level_2_data_history();
        let mut v = vec![r.prices.0.clone(), r.prices.1.clone(), r.volumes.0.clone(), r.volumes.1.clone()];
        for l in 0..L {
            v.push(r.volumes_at_levels.0[l].clone());
            v.push(r.orders_at_levels.0[l].clone());
            v.push(r.volumes_at_levels.1[l].clone());
            v.push(r.orders_at_levels.1[l].clone());
        }
        v
    }
    fn trade_vols(&self, _a: usize) -> Vec<u32> { self.get_trade_vols().clone() }
    fn queue_len(&self) -> usize { 0 } // the queue is not observable through the public API (get_transactions is test-only)
}

impl Sim for MarketEnv<MA, L> {
    fn assets(&self) -> usize { MA }
    fn place(&mut self, a: usize, s: Side, v: u32, tr: u32, p: Option<u32>) -> Result<usize, ()> { self.place_order(a, s, v, tr, p).map(|x| x.1).map_err(|_| ()) }
    fn cancel(&mut self, a: usize, id: usize) { self.cancel_order((a, id)) }
    fn modify(&mut self, a: usize, id: usize, p: Option<u32>, v: Option<u32>) { self.modify_order((a, id), p, v) }
    fn toggle(&mut self, on: bool) { if on { self.enable_trading() } else { self.disable_trading() } }
    fn step(&mut self, rng: &mut Xoroshiro128StarStar) { MarketEnv::step(self, rng) }
    fn book(&self, a: usize) -> &OrderBook<L> { self.get_market().get_order_book(a) }
    fn cached(&self, a: usize) -> &Level2Data<L> { &self.level_2_data()[a] }
    fn n_orders(&self, a: usize) -> usize { self.get_orders(a).len() }
    fn series(&self, a: usize) -> Vec<Vec<u32>> {
        let r = self.get_level_2_data_history(a);
        let mut v = vec![r.prices.0.clone(), r.prices.1.clone(), r.volumes.0.clone(), r.volumes.1.clone()];
        for l in 0..L {
            v.push(r.volumes_at_levels.0[l].clone());
            v.push(r.orders_at_levels.0[l].clone());
            v.push(r.volumes_at_levels.1[l].clone());
            v.push(r.orders_at_levels.1[l].clone());
        }
        v
    }
    fn trade_vols(&self, a: usize) -> Vec<u32> { self.get_trade_vols(a).clone() }
    fn queue_len(&self) -> usize { 0 } // the queue is not observable through the public API (get_transactions is test-only)
}

#[derive(Clone)]
enum Instr {
    New(usize, usize),
    Cancel(usize, usize),
    Modify(usize, usize, Option<u32>, Option<u32>),
}

fn book_obs(b: &OrderBook<L>) -> (Vec<(u8, u8, u64, u64, u32, u32, u32, u32, usize)>, Vec<(u64, u8, u32, u32, usize, usize)>, u64, (u32, u32), (u32, u32), Vec<(u32, u32)>, Vec<(u32, u32)>) {
    (b.get_orders().iter().map(|o| okey(o)).collect(), b.get_trades().iter().map(tkey).collect(), b.get_time(), b.bid_ask(), (b.bid_vol(), b.ask_vol()), b.bid_levels().to_vec(), b.ask_levels().to_vec())
}

fn live_series_row(b: &OrderBook<L>) -> Vec<u32> {
    let mut v = vec![b.bid_ask().0, b.bid_ask().1, b.bid_vol(), b.ask_vol()];
    let (bl, al) = (b.bid_levels(), b.ask_levels());
    for l in 0..L {
        v.push(bl[l].0);
        v.push(bl[l].1);
        v.push(al[l].0);
        v.push(al[l].1);
    }
    v
}

fn run_sim<S: Sim>(mut env: S, h: &EnvHistory, fails: &mut Vec<Failure>) {
    let n = env.assets();
    let mut rng = Xoroshiro128StarStar::seed_from_u64(h.seed);
    // plain books driven in lock-step (the "stand-alone single-asset books")
    let mut plain: Vec<OrderBook<L>> = (0..n).map(|a| OrderBook::new(h.t0, h.ticks[a % h.ticks.len()], h.trading)).collect();
    let mut queue: Vec<Instr> = vec![];
    let mut k_steps = 0usize;
    let mut ever_overfull = false; // a step carried more instructions than the step size has time units (the domain of the recorded C05 finding)
    let mut live_rows: Vec<Vec<Vec<u32>>> = vec![vec![]; n];
    let mut fail = |step: usize, clause: &str, detail: String, fails: &mut Vec<Failure>| fails.push(Failure { step, op: None, clause: clause.into(), detail });
    for (k, op) in h.ops.iter().enumerate() {
        let before: Vec<_> = (0..n).map(|a| (book_obs(env.book(a)), l2key(env.cached(a)), env.series(a), env.trade_vols(a))).collect();
        match op {
            EOp::Place { asset, side, vol, trader, price } => {
                let a = *asset % n;
                let r = env.place(a, sd(*side), *vol, *trader, *price);
                let expect_ok = price.map_or(true, |p| p % h.ticks[a % h.ticks.len()] == 0);
                if r.is_ok() != expect_ok {
                    fail(k, "C12.create_iff", format!("place_order returned ok={} for price {:?} tick {}", r.is_ok(), price, h.ticks[a % h.ticks.len()]), fails);
                }
                if let Ok(id) = r {
                    let pid = plain[a].create_order(sd(*side), *vol, *trader, *price).unwrap();
                    if pid != id {
                        fail(k, "C14.ids", format!("environment id {} but stand-alone book id {}", id, pid), fails);
                    }
                    queue.push(Instr::New(a, id));
                }
            }
            EOp::Cancel { asset, id } => {
                let a = *asset % n;
                if env.n_orders(a) == 0 { continue; }
                let id = *id % env.n_orders(a);
                env.cancel(a, id);
                queue.push(Instr::Cancel(a, id));
            }
            EOp::Modify { asset, id, price, vol } => {
                let a = *asset % n;
                if env.n_orders(a) == 0 { continue; }
                let id = *id % env.n_orders(a);
                env.modify(a, id, *price, *vol);
                queue.push(Instr::Modify(a, id, *price, *vol));
            }
            EOp::Enable => { env.toggle(true); for b in plain.iter_mut() { b.enable_trading() } }
            EOp::Disable => { env.toggle(false); for b in plain.iter_mut() { b.disable_trading() } }
            EOp::Step => {
                let start = env.book(0).get_time();
                let mut rng2 = rng.clone();
                let res = std::panic::catch_unwind(std::panic::AssertUnwindSafe(|| env.step(&mut rng)));
                if res.is_err() {
                    fail(k, "panic", "step panicked".into(), fails);
                    return;
                }
                // the schedule: shuffle of a vector of the same length with the same generator state
                let mut sched: Vec<Instr> = queue.clone();
                if sched.len() as u64 > h.step_size { ever_overfull = true; }
                sched.shuffle(&mut rng2);
                queue.clear();
                let ntr: Vec<usize> = plain.iter().map(|b| b.get_trades().len()).collect();
                for b in plain.iter_mut() { b.reset_trade_vol(); }
                for (i, ins) in sched.iter().enumerate() {
                    for b in plain.iter_mut() { b.set_time(start + i as u64); }
                    match ins {
                        Instr::New(a, id) => plain[*a].process_event(Event::New { order_id: *id }),
                        Instr::Cancel(a, id) => plain[*a].process_event(Event::Cancellation { order_id: *id }),
                        Instr::Modify(a, id, p, v) => plain[*a].process_event(Event::Modify { order_id: *id, new_price: *p, new_vol: *v }),
                    }
                }
                for b in plain.iter_mut() { b.set_time(start + h.step_size); }
                k_steps += 1;
                if env.queue_len() != 0 {
                    fail(k, "C08.queue_empty", format!("{} instructions left in the queue after the step", env.queue_len()), fails);
                }
                for a in 0..n {
                    let (eo, po) = (book_obs(env.book(a)), book_obs(&plain[a]));
                    if eo != po {
                        let what = if eo.0 != po.0 { "orders" } else if eo.1 != po.1 { "trades" } else if eo.2 != po.2 { "clock" } else { "market data" };
                        fail(k, if n > 1 { "C14.batch" } else { "C08.batch" }, format!("asset {}: {} after the step differ from a plain book fed the same instructions in the shuffled order at start+i", a, what), fails);
                    }
                    if env.book(a).get_time() != start + h.step_size {
                        fail(k, "C08.clock", format!("clock {} after the step, expected {}", env.book(a).get_time(), start + h.step_size), fails);
                    }
                    // C05 step overrun: nothing may be stamped later than the clock shows
                    let now = env.book(a).get_time();
                    if env.book(a).get_trades().iter().any(|t| t.t > now) || env.book(a).get_orders().iter().any(|o| o.status != Status::New && o.arr_time > now) {
                        fail(k, "C05.step_overrun", format!("asset {}: a trade or an arrival is stamped later than the clock ({}) shows after the step", a, now), fails);
                    }
                    // C05 inside the clock discipline: the environment stamps every instruction of every step with its own time, so it never ITSELF creates two resting orders of one
                    // book that share side, price and timestamp (the histories on which the recorded key-collision finding loses orders); checked only while no step was over-full
                    if !ever_overfull {
                        let os = env.book(a).get_orders();
                        let mut seen = std::collections::BTreeSet::new();
                        for o in os.iter().filter(|o| o.status == Status::Active) {
                            if !seen.insert((matches!(o.side, Side::Bid), o.price, o.arr_time)) {
                                fail(k, "C05.env_equal_stamps", format!("asset {}: two orders on one side at price {} were both stamped {} by the environment although no step was over-full (the later one shadows the earlier in the queue)", a, o.price, o.arr_time), fails);
                                break;
                            }
                        }
                    }
                    // C11: per-step traded volume = trades stamped within the step
                    let tv: u64 = env.book(a).get_trades()[ntr[a].min(env.book(a).get_trades().len())..].iter().map(|t| t.vol as u64).sum();
                    let rec = env.trade_vols(a);
                    if rec.len() != k_steps || *rec.last().unwrap() as u64 != tv {
                        fail(k, "C11.step_volume", format!("asset {}: recorded traded volume {:?} (len {}), the trades of this step sum to {} after {} steps", a, rec.last(), rec.len(), tv, k_steps), fails);
                        fail(k, "C08.step_volume", format!("asset {}: the step's traded volume does not count exactly that step's trades", a), fails);
                    }
                    // C11: every series has k entries and entry k equals the live value
                    live_rows[a].push(live_series_row(env.book(a)));
                    let ser = env.series(a);
                    for (si, s) in ser.iter().enumerate() {
                        if s.len() != k_steps {
                            fail(k, "C11.aligned", format!("asset {}: series {} has {} entries after {} steps", a, si, s.len(), k_steps), fails);
                        } else {
                            for j in 0..k_steps {
                                if s[j] != live_rows[a][j][si] {
                                    fail(k, "C11.faithful", format!("asset {}: series {} entry {} is {} but the live book showed {} at the end of that step", a, si, j, s[j], live_rows[a][j][si]), fails);
                                    if n > 1 {
                                        fail(k, "C14.own_series", format!("asset {}: its recorded history does not hold its own values", a), fails);
                                    }
                                    break;
                                }
                            }
                        }
                    }
                    // C10: cached snapshot = live level-2 data
                    if l2key(env.cached(a)) != l2key(&env.book(a).level_2_data()) {
                        fail(k, "C10.snapshot", format!("asset {}: the cached level-2 snapshot differs from the live book after the step", a), fails);
                        if n > 1 {
                            fail(k, "C14.own_snapshot", format!("asset {}: level_2_data()[{}] is not this asset's own level-2 data after the step", a, a), fails);
                        }
                    }
                }
            }
        }
        if !matches!(op, EOp::Step) {
            // C10: between steps nothing observable changes except a new order with status New
            for a in 0..n {
                let (bo, l2, ser, tvs) = &before[a];
                let ao = book_obs(env.book(a));
                let same_prefix = ao.0.len() >= bo.0.len() && ao.0[..bo.0.len()] == bo.0[..];
                let new_ok = ao.0[bo.0.len().min(ao.0.len())..].iter().all(|o| o.1 == 0);
                if !same_prefix || !new_ok || ao.1 != bo.1 || ao.2 != bo.2 || ao.3 != bo.3 || ao.4 != bo.4 || ao.5 != bo.5 || ao.6 != bo.6 {
                    fail(k, "C10.quiet", format!("asset {}: a submission changed the live book (or the new order is not New)", a), fails);
                }
                if &l2key(env.cached(a)) != l2 || &env.series(a) != ser || &env.trade_vols(a) != tvs {
                    fail(k, "C10.quiet", format!("asset {}: a submission changed the cached snapshot or the recorded histories", a), fails);
                }
            }
        }
        if !fails.is_empty() {
            return;
        }
    }
}

pub fn run_env_history(h: &EnvHistory) -> Vec<Failure> {
    let mut fails = vec![];
    let res = std::panic::catch_unwind(std::panic::AssertUnwindSafe(|| {
        let mut f = vec![];
        if h.env == "market_env" {
            run_sim(MarketEnv::<MA, L>::new(h.t0, [h.ticks[0], h.ticks[1 % h.ticks.len()], h.ticks[2 % h.ticks.len()], h.ticks[3 % h.ticks.len()]], h.step_size, h.trading), h, &mut f);
        } else {
            run_sim(Env::<L>::new(h.t0, h.ticks[0], h.step_size, h.trading), h, &mut f);
        }
        f
    }));
    match res {
        Ok(f) => fails = f,
        Err(e) => {
            let msg = e.downcast_ref::<String>().cloned().or_else(|| e.downcast_ref::<&str>().map(|s| s.to_string())).unwrap_or_default();
            fails.push(Failure { step: 0, op: None, clause: "panic".into(), detail: format!("the real code panicked: {}", msg) });
        }
    }
    fails
}

fn random_env_history(rng: &mut Xoroshiro128StarStar, market: bool, overrun: bool, len: usize) -> EnvHistory {
    let mut ops = vec![];
    // batches never exceed the step size (that domain is the recorded C05 finding) - but small step sizes are filled EXACTLY, and the clock need not start on a multiple
    let step_size: u64 = if overrun { 2 } else { [64, 4, 7, 64][rng.gen_range(0..4)] };
    let t0: u64 = match rng.gen_range(0..8) { 0 | 1 | 2 | 3 => 0, 4 | 5 => rng.gen_range(1..50), 6 => (1u64 << 32) - rng.gen_range(1..40), _ => (1u64 << 40) + rng.gen_range(0..1000) };
    let mut in_batch = 0u64;
    for _ in 0..len {
        if !overrun && in_batch >= step_size {
            ops.push(EOp::Step);
            in_batch = 0;
        }
        let r = rng.gen_range(0..100);
        let asset = if !market { 0 } else if rng.gen_bool(0.6) { rng.gen_range(0..2) } else { rng.gen_range(2..MA) };
        let side = if rng.gen_bool(0.5) { MSide::Bid } else { MSide::Ask };
        if r >= 77 { in_batch = 0; } else if r < 72 { in_batch += 1; }
        ops.push(if r < 2 {
            EOp::Place { asset, side, vol: rng.gen_range(1..8), trader: 1, price: Some(if rng.gen_bool(0.5) { u32::MAX } else { 0 }) }
        } else if r < 40 {
            EOp::Place { asset, side, vol: rng.gen_range(1..8), trader: rng.gen_range(0..3), price: if rng.gen_bool(0.8) { Some((20 + rng.gen_range(0..5)) * 2) } else { None } }
        } else if r < 44 {
            EOp::Place { asset, side, vol: 3, trader: 0, price: Some(41) }
        } else if r < 56 {
            EOp::Cancel { asset, id: rng.gen_range(0..64) }
        } else if r < 72 {
            EOp::Modify { asset, id: rng.gen_range(0..64), price: if rng.gen_bool(0.5) { Some((20 + rng.gen_range(0..5)) * 2) } else { None }, vol: if rng.gen_bool(0.7) { Some(rng.gen_range(1..9)) } else { None } }
        } else if r < 74 {
            EOp::Disable
        } else if r < 77 {
            EOp::Enable
        } else {
            EOp::Step
        });
    }
    ops.push(EOp::Step);
    ops.push(EOp::Step);
    // one history in eight starts with trading disabled and switches it on somewhere along the way
    let trading = rng.gen_range(0..8) != 0;
    if !trading {
        let at = rng.gen_range(0..ops.len());
        ops.insert(at, EOp::Enable);
    }
    EnvHistory { env: if market { "market_env".into() } else { "env".into() }, ticks: vec![2, 1], step_size, trading, seed: rng.gen(), t0, ops, note: String::new() }
}

fn matches(f: &Failure, prop: &str) -> bool {
    prop == "any" || f.clause.starts_with(prop) || f.clause == "panic" || (prop == "C14" && f.clause.starts_with("C08")) || (prop == "C08" && f.clause.starts_with("C14"))
}

pub fn search_env(prop: &str, seed: u64, nrandom: usize, budget_s: u64, allow_overrun: bool, overrun_other: bool) -> Option<(EnvHistory, Vec<Failure>)> {
    // overrun_other: histories INSIDE the step-overrun domain of the recorded C05 finding, accepting only failures of OTHER clauses than the one the finding fails
    // (C05 also says: all other guarantees continue to hold when a step carries more instructions than the step size has time units)
    let matches = |f: &Failure, prop: &str| -> bool { if overrun_other { f.clause != "C05.step_overrun" } else { matches(f, prop) } };
    let t0 = std::time::Instant::now();
    let mut rng = Xoroshiro128StarStar::seed_from_u64(seed ^ 0xe57);
    for k in 0..nrandom {
        if t0.elapsed().as_secs() > budget_s {
            break;
        }
        let market = if prop == "C14" { true } else { k % 2 == 1 };
        let overrun = (allow_overrun || overrun_other) && prop == "C05";
        let mut h = random_env_history(&mut rng, market, overrun, 10 + (k % 5) * 10);
        let fails = run_env_history(&h);
        if fails.iter().any(|f| matches(f, prop)) {
            // shrink
            let mut changed = true;
            while changed {
                changed = false;
                let mut i = 0;
                while i < h.ops.len() {
                    let mut h2 = h.clone();
                    h2.ops.remove(i);
                    if run_env_history(&h2).iter().any(|f| matches(f, prop)) {
                        h = h2;
                        changed = true;
                    } else {
                        i += 1;
                    }
                }
            }
            let fails = run_env_history(&h);
            return Some((h, fails));
        }
    }
    None
}
