//! Bounded statistical stand-in for C15 (never decides a proof): the distribution of processing orders over seeded steps of the real environments.
//! What the contracts prove is that the processing order IS `shuffle(queue, supplied generator)` of the `rand` crate, applied once and never reordered (clauses tagged
//! C15 in the units env / menv); that this library shuffle is unbiased is an ASSUMPTION of that proof, and this stand-in exercises it on the real code: for batch sizes
//! 2..=4 all n! orders are counted, for batch size 8 the position-by-item and the pairwise-order tables, each cell against an exact concentration bound
//! (Bernstein, union bound over all cells, false-alarm probability below 1e-9 for an unbiased shuffle).  The run is deterministic: step k uses the generator seeded with base + k.
use bourse_book::types::{Side, Status};
use bourse_de::{Env, MarketEnv};
use rand::SeedableRng;
use rand_xoshiro::Xoroshiro128StarStar;
use std::collections::BTreeMap;

/// positions (0-based processing slots) of the n instructions of one step, in submission order.  Instruction kinds are mixed: even submission indices place new
/// orders (slot = arrival time - step start), odd ones cancel an order that rests from the step before (slot = end time - step start); see `mix` for the one-kind batches.
fn one_step(n: usize, seed: u64, market: bool, mix: u8) -> Option<Vec<usize>> {
    // mix 0: new orders and cancellations alternate; 1: cancellations only; 2: new orders only (a batch of one kind must be shuffled like any other)
    let is_new = |k: usize| match mix { 0 => k % 2 == 0, 1 => false, _ => true };
    let mut rng = Xoroshiro128StarStar::seed_from_u64(seed);
    let mut setup = Xoroshiro128StarStar::seed_from_u64(1);
    let step = 1000u64;
    if !market {
        let mut env: Env = Env::new(0, 1, step, true);
        let resting: Vec<usize> = (0..n).map(|k| env.place_order(Side::Bid, 1, 7, Some(10 + k as u32)).unwrap()).collect();
        env.step(&mut setup);
        let start = env.get_orderbook().get_time();
        let mut ids = vec![];
        for k in 0..n {
            if is_new(k) {
                ids.push((true, env.place_order(Side::Ask, 1, k as u32, Some(500 + k as u32)).unwrap()));
            } else {
                env.cancel_order(resting[k]);
                ids.push((false, resting[k]));
            }
        }
        env.step(&mut rng);
        let mut out = vec![];
        for (new, id) in ids {
            let o = env.order(id);
            let t = if new { o.arr_time } else { if o.status != Status::Cancelled { return None; } o.end_time };
            out.push((t - start) as usize);
        }
        Some(out)
    } else {
        let mut env: MarketEnv<2, 3> = MarketEnv::new(0, [1, 2], step, true);
        let resting: Vec<(usize, usize)> = (0..n).map(|k| env.place_order(k % 2, Side::Bid, 1, 7, Some(10 + 2 * k as u32)).unwrap()).collect();
        env.step(&mut setup);
        let start = env.get_market().get_time();
        let mut ids = vec![];
        for k in 0..n {
            if is_new(k) {
                ids.push((true, env.place_order((k / 2) % 2, Side::Ask, 1, k as u32, Some(500 + 2 * k as u32)).unwrap()));
            } else {
                env.cancel_order(resting[k]);
                ids.push((false, resting[k]));
            }
        }
        env.step(&mut rng);
        let mut out = vec![];
        for (new, id) in ids {
            let o = env.order(id);
            let t = if new { o.arr_time } else { if o.status != Status::Cancelled { return None; } o.end_time };
            out.push((t - start) as usize);
        }
        Some(out)
    }
}

/// Bernstein: P(|X - Np| >= t) <= 2 exp(-t^2 / (2 (N p (1 - p) + t / 3))); smallest t with bound <= delta
fn bernstein_t(n: f64, p: f64, delta: f64) -> f64 {
    let l = (2.0 / delta).ln();
    let v = n * p * (1.0 - p);
    // t^2 = 2 l (v + t/3)  ->  t = l/3 + sqrt(l^2/9 + 2 l v)
    l / 3.0 + (l * l / 9.0 + 2.0 * l * v).sqrt()
}

/// -> (steps run, violations)
pub fn shuffle_stats(seed0: u64, per_size: usize) -> (usize, Vec<String>) {
    let mut bad = vec![];
    let mut runs = 0usize;
    // number of cells over everything tested: 2 envs x 3 instruction mixes x (2 + 6 + 24 + 64 + 56)
    let cells = 2.0 * 3.0 * (2.0 + 6.0 + 24.0 + 64.0 + 56.0);
    let delta = 1e-9 / cells;
    for (market, mix) in [(false, 0u8), (true, 0), (false, 1), (true, 1), (false, 2), (true, 2)] {
        let who = format!("{}{}", if market { "MarketEnv" } else { "Env" }, ["", " (cancellations only)", " (new orders only)"][mix as usize]);
        let salt = mix as u64 * 100_000_000;
        for n in [2usize, 3, 4] {
            let mut counts: BTreeMap<Vec<usize>, usize> = BTreeMap::new();
            for k in 0..per_size {
                runs += 1;
                match one_step(n, seed0.wrapping_mul(1_000_003).wrapping_add(salt + k as u64), market, mix) {
                    Some(p) => {
                        let mut sorted = p.clone();
                        sorted.sort();
                        if sorted != (0..n).collect::<Vec<_>>() {
                            bad.push(format!("{}: batch of {}: the processing slots {:?} are not a permutation of 0..{}", who, n, p, n));
                            return (runs, bad);
                        }
                        *counts.entry(p).or_insert(0) += 1;
                    }
                    None => { bad.push(format!("{}: batch of {}: a queued cancellation of a resting order was not executed", who, n)); return (runs, bad); }
                }
            }
            let fact: usize = (1..=n).product();
            let (nn, p) = (per_size as f64, 1.0 / fact as f64);
            let t = bernstein_t(nn, p, delta);
            if counts.len() != fact {
                bad.push(format!("{}: batch of {}: only {} of the {} processing orders ever occur in {} seeded steps", who, n, counts.len(), fact, per_size));
            }
            for (perm, c) in counts.iter() {
                if (*c as f64 - nn * p).abs() > t {
                    bad.push(format!("{}: batch of {}: processing order {:?} occurs {} times in {} seeded steps; an unbiased shuffle gives {:.0} +- {:.0} (Bernstein, 1e-9 overall)", who, n, perm, c, per_size, nn * p, t));
                }
            }
        }
        // batch of 8: position-by-item and pairwise-order tables
        let n = 8usize;
        let mut pos = vec![vec![0usize; n]; n];
        let mut before = vec![vec![0usize; n]; n];
        for k in 0..per_size {
            runs += 1;
            if let Some(p) = one_step(n, seed0.wrapping_mul(1_000_003).wrapping_add(salt + 7_000_000 + k as u64), market, mix) {
                for i in 0..n {
                    if p[i] >= n { bad.push(format!("{}: batch of 8: slot {} out of range", who, p[i])); return (runs, bad); }
                    pos[i][p[i]] += 1;
                    for j in 0..n { if i != j && p[i] < p[j] { before[i][j] += 1; } }
                }
            } else {
                bad.push(format!("{}: batch of 8: a queued cancellation of a resting order was not executed", who));
                return (runs, bad);
            }
        }
        let nn = per_size as f64;
        let (t1, t2) = (bernstein_t(nn, 1.0 / n as f64, delta), bernstein_t(nn, 0.5, delta));
        for i in 0..n {
            for s in 0..n {
                if (pos[i][s] as f64 - nn / n as f64).abs() > t1 {
                    bad.push(format!("{}: batch of 8: instruction {} (submission order) is processed in slot {} in {} of {} steps; unbiased: {:.0} +- {:.0}", who, i, s, pos[i][s], per_size, nn / n as f64, t1));
                }
            }
            for j in (i + 1)..n {
                if (before[i][j] as f64 - nn / 2.0).abs() > t2 {
                    bad.push(format!("{}: batch of 8: instruction {} is processed before instruction {} in {} of {} steps; unbiased: {:.0} +- {:.0}", who, i, j, before[i][j], per_size, nn / 2.0, t2));
                }
            }
        }
    }
    bad.truncate(6);
    (runs, bad)
}
