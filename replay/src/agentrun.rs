//! Agent-level twins (C16, C17) on the real agents, the real environment and real / adversarial generators.
//! Used to turn a Kani refutation into a failing input on the real code, and to re-confirm recorded findings. Never decides.
use crate::Failure;
use bourse_book::types::{Event, Order, Side, Status};
use bourse_de::agents::common::{cancel_live_orders, round_price_down, round_price_up};
use bourse_de::agents::{Agent, MarketAgent, MomentumAgent, MomentumMarketAgent, MomentumParams, NoiseAgent, NoiseAgentParams, NoiseMarketAgent, RandomAgents};
use bourse_de::{Env, MarketEnv};
use rand::{RngCore, SeedableRng};
use rand_xoshiro::Xoroshiro128StarStar;
use serde::{Deserialize, Serialize};

/// generator whose every 32-bit output is `v` (a uniform f32 draw is (v >> 8) * 2^-24)
struct ConstRng(u32);
impl RngCore for ConstRng {
    fn next_u32(&mut self) -> u32 { self.0 }
    fn next_u64(&mut self) -> u64 { ((self.0 as u64) << 32) | self.0 as u64 }
    fn fill_bytes(&mut self, d: &mut [u8]) { for (i, b) in d.iter_mut().enumerate() { *b = (self.0 >> (8 * (i % 4))) as u8; } }
    fn try_fill_bytes(&mut self, d: &mut [u8]) -> Result<(), rand::Error> { self.fill_bytes(d); Ok(()) }
}

#[derive(Clone, Debug, Serialize, Deserialize)]
#[serde(tag = "case", rename_all = "snake_case")]
pub enum AgentCase {
    /// cancel_live_orders with probability p on n active orders, generator output fixed to `draw`
    CancelProb { p: f32, n_orders: usize, draw: u32 },
    /// cancel_live_orders with p_cancel >= 1 on a list that MIXES finished (cancelled / filled) and active orders, in every arrangement of `pattern` (bit k set = order k is finished)
    CancelMixed { pattern: u32, n_orders: usize, draw: u32, market: bool },
    /// noise agents: tick, sigma, n traders, steps, seed  (checks grid, volumes, trader ids, quoting side of the mid, no abort)
    Noise { tick: u32, sigma: f64, p_limit: f32, p_market: f32, p_cancel: f32, n: u16, steps: u32, seed: u64 },
    /// momentum agents with harness-controlled quotes: path of (bid, ask); saturated demand
    Momentum { path: Vec<(u32, u32)>, n: u16, decay: f64, order_ratio: f64, seed: u64, #[serde(default = "big_demand")] demand: f64, #[serde(default = "one")] scale: f64 },
    /// multi-asset noise agents on asset 1 of a two-asset environment (tick of asset 1 given; mid off the grid when the spread is odd in ticks)
    NoiseMarket { tick: u32, bid: u32, ask: u32, sigma: f64, n: u16, steps: u32, seed: u64, #[serde(default = "yes")] trading: bool },
    /// multi-asset momentum agent on asset 1 with harness-controlled quotes
    MomentumMarket { path: Vec<(u32, u32)>, n: u16, seed: u64, #[serde(default = "one")] decay: f64, #[serde(default = "one")] scale: f64 },
    /// rounding
    Round { p: f64, tick: u32 },
    /// momentum agents (single-asset, or multi-asset on asset 1): a price move makes every trader place a limit order (saturated, order ratio 1), then QUIET steps
    /// (unchanged mid-price) with p_cancel >= 1: every live order of the agents must be cancelled ("an action with probability at least 1 always happens")
    MomentumQuiet { n: u16, seed: u64, market: bool, tick: u32 },
    /// random agents: tick range, steps
    Random { tick: u32, lo: u32, hi: u32, n: usize, rate: f32, steps: u32, seed: u64 },
}

fn big_demand() -> f64 { 1.0e6 }
fn one() -> f64 { 1.0 }
fn yes() -> bool { true }
fn is_bid(s: Side) -> bool { matches!(s, Side::Bid) }

fn fail(clause: &str, detail: String) -> Failure {
    Failure { step: 0, op: None, clause: clause.into(), detail }
}

/// every cancellation queued by an agent set must name one of its own orders (trader id in `own`) that is Active when the agents looked
fn check_cancellations(env: &Env, q0: usize, own: &dyn Fn(u32) -> bool, s: usize, out: &mut Vec<Failure>) {
    for ev in env.verif_transactions()[q0..].iter() {
        if let Event::Cancellation { order_id } = ev {
            let o = env.order(*order_id);
            if o.status != Status::Active {
                out.push(fail("C16.cancel_only_active", format!("step {}: a cancellation was queued for order {} whose status is {:?} (not active when the agent looked)", s, order_id, o.status)));
            }
            if !own(o.trader_id) {
                out.push(fail("C16.cancel_only_own", format!("step {}: a cancellation was queued for order {} of trader {}", s, order_id, o.trader_id)));
            }
        }
    }
}

fn quote(env: &mut Env, rng: &mut Xoroshiro128StarStar, bid: u32, ask: u32) {
    let ids: Vec<usize> = (0..env.get_orders().len()).collect();
    for i in ids {
        if env.order_status(i) == Status::Active {
            env.cancel_order(i);
        }
    }
    env.step(rng);
    env.place_order(Side::Bid, 1_000_000, 0, Some(bid)).unwrap();
    env.place_order(Side::Ask, 1_000_000, 0, Some(ask)).unwrap();
    env.step(rng);
}

pub fn run_case(c: &AgentCase) -> Vec<Failure> {
    let c = c.clone();
    let r = std::panic::catch_unwind(move || run_case_inner(&c));
    match r {
        Ok(f) => f,
        Err(e) => {
            let msg = e.downcast_ref::<String>().cloned().or_else(|| e.downcast_ref::<&str>().map(|s| s.to_string())).unwrap_or_default();
            vec![fail("C16.never_aborts", format!("the simulation aborted: {}", msg))]
        }
    }
}

fn run_case_inner(c: &AgentCase) -> Vec<Failure> {
    let mut out = vec![];
    match c {
        AgentCase::CancelProb { p, n_orders, draw } => {
            let mut env: Env = Env::new(0, 1, 1000, true);
            let mut rng = Xoroshiro128StarStar::seed_from_u64(1);
            let ids: Vec<usize> = (0..*n_orders).map(|k| env.place_order(Side::Bid, 5, 1, Some(10 + k as u32)).unwrap()).collect();
            env.step(&mut rng);
            let live = cancel_live_orders(&mut env, &mut ConstRng(*draw), &ids, *p);
            env.step(&mut rng);
            let cancelled = ids.iter().filter(|i| env.order_status(**i) == Status::Cancelled).count();
            if *p == 0.0 && cancelled > 0 {
                out.push(fail("C16.zero_probability_never", format!("p_cancel = 0 but {} of {} orders were cancelled (generator output {} -> uniform draw {})", cancelled, n_orders, draw, (draw >> 8) as f32 / 16777216.0)));
            }
            if *p >= 1.0 && cancelled != *n_orders {
                out.push(fail("C16.certain_probability_always", format!("p_cancel = {} but only {} of {} orders were cancelled", p, cancelled, n_orders)));
            }
            if live.len() + cancelled != *n_orders {
                out.push(fail("C16.cancel_rules", "kept + cancelled != listed active orders".into()));
            }
        }
        AgentCase::CancelMixed { pattern, n_orders, draw, market } => {
            let mut rng = Xoroshiro128StarStar::seed_from_u64(1);
            if !*market {
                let mut env: Env = Env::new(0, 1, 1000, true);
                let ids: Vec<usize> = (0..*n_orders).map(|k| env.place_order(Side::Bid, 5, 1, Some(10 + k as u32)).unwrap()).collect();
                env.step(&mut rng);
                for k in 0..*n_orders { if pattern >> k & 1 == 1 { env.cancel_order(ids[k]); } }
                env.step(&mut rng);
                let q0 = env.verif_transactions().len();
                let kept = cancel_live_orders(&mut env, &mut ConstRng(*draw), &ids, 1.0);
                for k in 0..*n_orders {
                    let hit = env.verif_transactions()[q0..].iter().any(|ev| matches!(ev, Event::Cancellation { order_id } if *order_id == ids[k]));
                    let finished = pattern >> k & 1 == 1;
                    if !finished && !hit {
                        out.push(fail("C16.certain_probability_always", format!("p_cancel = 1, orders {:?} with finished pattern {:b}: the active order {} was not cancelled", ids, pattern, ids[k])));
                    }
                    if finished && hit {
                        out.push(fail("C16.cancel_only_active", format!("orders {:?} with finished pattern {:b}: a cancellation was queued for the finished order {}", ids, pattern, ids[k])));
                    }
                }
                if !kept.is_empty() {
                    out.push(fail("C16.cancel_rules", format!("p_cancel = 1 but {:?} are handed back as still live (finished pattern {:b})", kept, pattern)));
                }
            } else {
                let mut env: MarketEnv<2, 3> = MarketEnv::new(0, [1, 1], 1000, true);
                let ids: Vec<(usize, usize)> = (0..*n_orders).map(|k| env.place_order(1, Side::Bid, 5, 1, Some(10 + k as u32)).unwrap()).collect();
                env.step(&mut rng);
                for k in 0..*n_orders { if pattern >> k & 1 == 1 { env.cancel_order(ids[k]); } }
                env.step(&mut rng);
                let q0 = env.verif_transactions().len();
                let kept = bourse_de::agents::common::cancel_live_orders_market(&mut env, &mut ConstRng(*draw), &ids, 1.0);
                for k in 0..*n_orders {
                    let hit = env.verif_transactions()[q0..].iter().any(|ev| matches!(ev, Event::Cancellation { order_id } if *order_id == ids[k]));
                    let finished = pattern >> k & 1 == 1;
                    if !finished && !hit {
                        out.push(fail("C16.certain_probability_always", format!("multi-asset, p_cancel = 1, finished pattern {:b}: the active order {:?} was not cancelled", pattern, ids[k])));
                    }
                    if finished && hit {
                        out.push(fail("C16.cancel_only_active", format!("multi-asset, finished pattern {:b}: a cancellation was queued for the finished order {:?}", pattern, ids[k])));
                    }
                }
                if !kept.is_empty() {
                    out.push(fail("C16.cancel_rules", format!("multi-asset: p_cancel = 1 but {:?} are handed back as still live (finished pattern {:b})", kept, pattern)));
                }
            }
        }
        AgentCase::Noise { tick, sigma, p_limit, p_market, p_cancel, n, steps, seed } => {
            let mut env: Env = Env::new(0, *tick, 1_000_000, true);
            let mut rng = Xoroshiro128StarStar::seed_from_u64(*seed);
            let params = NoiseAgentParams { tick_size: *tick, p_limit: *p_limit, p_market: *p_market, p_cancel: *p_cancel, trade_vol: 100, price_dist_mu: 0.0, price_dist_sigma: *sigma };
            let mut agents = NoiseAgent::new(10, *n, params);
            env.place_order(Side::Bid, 10_000_000, 0, Some(50 * tick)).unwrap();
            env.place_order(Side::Ask, 10_000_000, 0, Some(52 * tick)).unwrap();
            env.step(&mut rng);
            for s in 0..*steps {
                let n0 = env.get_orders().len();
                let q0 = env.verif_transactions().len();
                let mid = env.get_orderbook().mid_price();
                agents.update(&mut env, &mut rng);
                let (lo_id, hi_id) = (10u32, 10 + *n as u32);
                check_cancellations(&env, q0, &|t| t >= lo_id && t < hi_id, s as usize, &mut out);
                if *p_cancel >= 1.0 || *p_cancel == 0.0 {
                    for o in env.get_orders()[..n0].iter().filter(|o| o.trader_id >= lo_id && o.trader_id < hi_id && o.status == Status::Active) {
                        let hit = env.verif_transactions()[q0..].iter().any(|ev| matches!(ev, Event::Cancellation { order_id } if *order_id == o.order_id));
                        if *p_cancel >= 1.0 && !hit {
                            out.push(fail("C16.certain_probability_always", format!("step {}: p_cancel >= 1 but the live order {} of trader {} was not cancelled", s, o.order_id, o.trader_id)));
                        }
                        if *p_cancel == 0.0 && hit {
                            out.push(fail("C16.zero_probability_never", format!("step {}: p_cancel = 0 but order {} was cancelled", s, o.order_id)));
                        }
                    }
                }
                let new: Vec<Order> = env.get_orders()[n0..].iter().map(|o| **o).collect();
                for o in new.iter() {
                    let market = (is_bid(o.side) && o.price == u32::MAX) || (!is_bid(o.side) && o.price == 0);
                    if o.vol != 100 || o.trader_id < 10 || o.trader_id >= 10 + *n as u32 {
                        out.push(fail("C16.configured_volume_and_trader", format!("step {}: order {:?} vol {} trader {}", s, o.order_id, o.vol, o.trader_id)));
                    }
                    if !market {
                        if o.price % tick != 0 {
                            out.push(fail("C16.grid", format!("step {}: limit price {} off the grid {}", s, o.price, tick)));
                        }
                        if is_bid(o.side) && f64::from(o.price) > mid {
                            out.push(fail("C16.buy_below_mid", format!("step {}: buy at {} above the observed mid {}", s, o.price, mid)));
                        }
                        if !is_bid(o.side) && f64::from(o.price) < mid {
                            out.push(fail("C16.sell_above_mid", format!("step {}: sell at {} below the observed mid {}", s, o.price, mid)));
                        }
                    }
                }
                let per_trader_max = 2usize;
                if new.len() > per_trader_max * *n as usize {
                    out.push(fail("C16.activity", format!("step {}: {} instructions from {} traders", s, new.len(), n)));
                }
                if *p_limit >= 1.0 && *p_market == 0.0 && new.len() != *n as usize {
                    out.push(fail("C16.activity", format!("step {}: p_limit >= 1 but {} orders from {} traders", s, new.len(), n)));
                }
                if *p_limit == 0.0 && *p_market == 0.0 && !new.is_empty() {
                    out.push(fail("C16.zero_probability_never", format!("step {}: probabilities 0 but {} orders", s, new.len())));
                }
                env.step(&mut rng);
                if !out.is_empty() {
                    return out;
                }
            }
        }
        AgentCase::Momentum { path, n, decay, order_ratio, seed, demand, scale } => {
            let mut env: Env = Env::new(0, 1, 1_000_000, true);
            let mut rng = Xoroshiro128StarStar::seed_from_u64(*seed);
            let params = MomentumParams { tick_size: 1, p_cancel: 0.0, trade_vol: 10, decay: *decay, demand: *demand, scale: *scale, order_ratio: *order_ratio, price_dist_mu: 0.0, price_dist_sigma: 0.5 };
            let mut ag = MomentumAgent::new(100, *n, params);
            let mut last: Option<f64> = None;
            let mut m = 0.0f64;
            for (k, (b, a)) in path.iter().enumerate() {
                quote(&mut env, &mut rng, *b, *a);
                let mid = env.get_orderbook().mid_price();
                let n0 = env.get_orders().len();
                let q0 = env.verif_transactions().len();
                ag.update(&mut env, &mut rng);
                let hi_id = 100 + *n as u32;
                check_cancellations(&env, q0, &|t| t >= 100 && t < hi_id, k, &mut out);
                let new: Vec<Order> = env.get_orders()[n0..].iter().filter(|o| o.trader_id >= 100).map(|o| **o).collect();
                for o in new.iter() {
                    let market = (is_bid(o.side) && o.price == u32::MAX) || (!is_bid(o.side) && o.price == 0);
                    if o.vol != 10 || o.trader_id >= hi_id {
                        out.push(fail("C16.configured_volume_and_trader", format!("step {}: order {:?} vol {} trader {}", k, o.order_id, o.vol, o.trader_id)));
                    }
                    if !market && is_bid(o.side) && f64::from(o.price) > mid {
                        out.push(fail("C16.buy_below_mid", format!("step {}: momentum agent buys at {} above the mid-price {} it observed", k, o.price, mid)));
                    }
                    if !market && !is_bid(o.side) && f64::from(o.price) < mid {
                        out.push(fail("C16.sell_above_mid", format!("step {}: momentum agent sells at {} below the mid-price {} it observed", k, o.price, mid)));
                    }
                }
                // documented recursion
                m = match last { Some(p) => m * (1.0 - decay) + decay * (mid - p), None => 0.0 };
                last = Some(mid);
                let markets: Vec<&Order> = new.iter().filter(|o| (is_bid(o.side) && o.price == u32::MAX) || (!is_bid(o.side) && o.price == 0)).collect();
                let (buys, sells) = (markets.iter().filter(|o| is_bid(o.side)).count(), markets.iter().filter(|o| !is_bid(o.side)).count());
                let saturated = (*scale * m).abs() >= 4.0 && *demand >= 1.1 * f64::from(*n);   // |tanh(M)| > 0.999: p = demand * tanh / n >= 1
                if saturated && m > 0.0 && (buys != *n as usize || sells != 0) {
                    out.push(fail("C17.buys_when_rising", format!("step {}: M = {} > 0 but market orders (buys, sells) = ({}, {}) from {} traders", k, m, buys, sells, n)));
                }
                if saturated && m < 0.0 && (sells != *n as usize || buys != 0) {
                    out.push(fail("C17.sells_when_falling", format!("step {}: M = {} < 0 but market orders (buys, sells) = ({}, {}) from {} traders", k, m, buys, sells, n)));
                }
                if m == 0.0 && !new.is_empty() {
                    out.push(fail("C17.flat", format!("step {}: M = 0 but {} orders", k, new.len())));
                }
                // limit orders: probability order_ratio * |demand * tanh(scale * M)| / n - certain at saturation when the ratio is at least 1, on the side of the signal
                let limits: Vec<&Order> = new.iter().filter(|o| !((is_bid(o.side) && o.price == u32::MAX) || (!is_bid(o.side) && o.price == 0))).collect();
                let (lb, ls) = (limits.iter().filter(|o| is_bid(o.side)).count(), limits.iter().filter(|o| !is_bid(o.side)).count());
                // certain when order_ratio * |demand * tanh(scale * M)| / n >= 1; |tanh| > 0.999 once |scale * M| >= 4
                let limit_certain = saturated && *order_ratio * *demand * 0.999 / f64::from(*n) >= 1.0;
                if limit_certain && m > 0.0 && (lb != *n as usize || ls != 0) {
                    out.push(fail("C17.limit_buys_when_rising", format!("step {}: M = {} > 0, order ratio {} but limit orders (buys, sells) = ({}, {}) from {} traders", k, m, order_ratio, lb, ls, n)));
                }
                if limit_certain && m < 0.0 && (ls != *n as usize || lb != 0) {
                    out.push(fail("C17.limit_sells_when_falling", format!("step {}: M = {} < 0, order ratio {} but limit orders (buys, sells) = ({}, {}) from {} traders", k, m, order_ratio, lb, ls, n)));
                }
                if *order_ratio == 0.0 && !limits.is_empty() {
                    out.push(fail("C16.zero_probability_never", format!("step {}: order ratio 0 but {} limit orders were placed", k, limits.len())));
                }
                if !out.is_empty() {
                    return out;
                }
            }
        }
        AgentCase::NoiseMarket { tick, bid, ask, sigma, n, steps, seed, trading } => {
            // trading may be disabled: the book of asset 1 is then allowed to be crossed (bid above ask), which the agents must survive and quote around
            let mut env: MarketEnv<2, 3> = MarketEnv::new(0, [1, *tick], 1_000_000, *trading);
            let mut rng = Xoroshiro128StarStar::seed_from_u64(*seed);
            let params = NoiseAgentParams { tick_size: *tick, p_limit: 1.0, p_market: 0.0, p_cancel: 0.2, trade_vol: 100, price_dist_mu: 0.0, price_dist_sigma: *sigma };
            let mut agents = NoiseMarketAgent::new(1, 10, *n, params);
            env.place_order(1, Side::Bid, 100_000, 0, Some(*bid)).unwrap();
            env.place_order(1, Side::Ask, 100_000, 0, Some(*ask)).unwrap();
            env.step(&mut rng);
            for s in 0..*steps {
                let n0 = env.get_orders(1).len();
                let n00 = env.get_orders(0).len();
                let mid = env.get_market().get_order_book(1).mid_price();
                agents.update(&mut env, &mut rng);
                if env.get_orders(0).len() != n00 {
                    out.push(fail("C16.own_asset", format!("step {}: an agent of asset 1 submitted to asset 0", s)));
                }
                let new: Vec<Order> = env.get_orders(1)[n0..].iter().map(|o| **o).collect();
                for o in new.iter() {
                    if o.vol != 100 || o.trader_id < 10 || o.trader_id >= 10 + *n as u32 {
                        out.push(fail("C16.configured_volume_and_trader", format!("step {}: vol {} trader {}", s, o.vol, o.trader_id)));
                    }
                    if o.price % tick != 0 {
                        out.push(fail("C16.grid", format!("step {}: limit price {} off the grid {}", s, o.price, tick)));
                    }
                    if is_bid(o.side) && f64::from(o.price) > mid {
                        out.push(fail("C16.buy_below_mid", format!("step {}: buy at {} above the observed mid {}", s, o.price, mid)));
                    }
                    if !is_bid(o.side) && f64::from(o.price) < mid {
                        out.push(fail("C16.sell_above_mid", format!("step {}: sell at {} below the observed mid {}", s, o.price, mid)));
                    }
                }
                env.step(&mut rng);
                if !out.is_empty() {
                    return out;
                }
            }
        }
        AgentCase::MomentumMarket { path, n, seed, decay, scale } => {
            let mut env: MarketEnv<2, 3> = MarketEnv::new(0, [1, 1], 1_000_000, true);
            let mut rng = Xoroshiro128StarStar::seed_from_u64(*seed);
            let params = MomentumParams { tick_size: 1, p_cancel: 0.0, trade_vol: 10, decay: *decay, demand: 1.0e6, scale: *scale, order_ratio: 0.0, price_dist_mu: 0.0, price_dist_sigma: 0.5 };
            let mut ag = MomentumMarketAgent::new(100, *n, 1, params);
            let mut last: Option<f64> = None;
            let mut mm = 0.0f64;
            for (k, (b, a)) in path.iter().enumerate() {
                let ids: Vec<usize> = (0..env.get_orders(1).len()).collect();
                for i in ids { if env.order_status((1, i)) == Status::Active { env.cancel_order((1, i)); } }
                env.step(&mut rng);
                env.place_order(1, Side::Bid, 1_000_000, 0, Some(*b)).unwrap();
                env.place_order(1, Side::Ask, 1_000_000, 0, Some(*a)).unwrap();
                env.step(&mut rng);
                let mid = env.get_market().get_order_book(1).mid_price();
                let n0 = env.get_orders(1).len();
                ag.update(&mut env, &mut rng);
                let new: Vec<Order> = env.get_orders(1)[n0..].iter().filter(|o| o.trader_id >= 100).map(|o| **o).collect();
                mm = match last { Some(p) => mm * (1.0 - decay) + decay * (mid - p), None => 0.0 };
                let m = mm;
                last = Some(mid);
                // order ratio 0: only MARKET orders may appear (a limit order would be an action of probability 0)
                let limits = new.iter().filter(|o| !((is_bid(o.side) && o.price == u32::MAX) || (!is_bid(o.side) && o.price == 0))).count();
                if limits > 0 {
                    out.push(fail("C16.zero_probability_never", format!("step {}: order ratio 0 but {} limit orders were placed", k, limits)));
                }
                let (buys, sells) = (new.iter().filter(|o| is_bid(o.side) && o.price == u32::MAX).count(), new.iter().filter(|o| !is_bid(o.side) && o.price == 0).count());
                if m > 0.0 && (buys != *n as usize || sells != 0) {
                    out.push(fail("C17.buys_when_rising", format!("step {}: multi-asset agent, M = {} > 0 but (buys, sells) = ({}, {}) from {} traders", k, m, buys, sells, n)));
                }
                if m < 0.0 && (sells != *n as usize || buys != 0) {
                    out.push(fail("C17.sells_when_falling", format!("step {}: multi-asset agent, M = {} < 0 but (buys, sells) = ({}, {}) from {} traders", k, m, buys, sells, n)));
                }
                if m == 0.0 && !new.is_empty() {
                    out.push(fail("C17.flat", format!("step {}: M = 0 but {} orders", k, new.len())));
                }
                if !out.is_empty() { return out; }
            }
        }
        AgentCase::MomentumQuiet { n, seed, market, tick } => {
            let tk = *tick;
            let params = MomentumParams { tick_size: tk, p_cancel: 1.0, trade_vol: 10, decay: 1.0, demand: 1.0e6, scale: 1.0, order_ratio: 1.0, price_dist_mu: 0.0, price_dist_sigma: 0.5 };
            let mut rng = Xoroshiro128StarStar::seed_from_u64(*seed);
            let own = |t: u32| t >= 100 && t < 100 + *n as u32;
            if !*market {
                let mut env: Env = Env::new(0, tk, 1_000_000, true);
                let mut ag = MomentumAgent::new(100, *n, params);
                env.place_order(Side::Bid, 1_000_000, 0, Some(1000 * tk)).unwrap();
                env.place_order(Side::Ask, 1_000_000, 0, Some(1010 * tk)).unwrap();
                env.step(&mut rng);
                ag.update(&mut env, &mut rng);
                env.step(&mut rng);
                env.place_order(Side::Bid, 1_000_000, 0, Some(1008 * tk)).unwrap();
                env.step(&mut rng);
                ag.update(&mut env, &mut rng);
                env.step(&mut rng);
                for s in 0..3usize {
                    let live: Vec<usize> = env.get_orders().iter().filter(|o| own(o.trader_id) && o.status == Status::Active).map(|o| o.order_id).collect();
                    if s == 0 && live.is_empty() {
                        out.push(fail("C17.limit_buys_when_rising", format!("after a rise at saturated demand and order ratio 1 no agent order rests ({} traders)", n)));
                    }
                    let q0 = env.verif_transactions().len();
                    ag.update(&mut env, &mut rng);
                    check_cancellations(&env, q0, &own, s, &mut out);
                    for id in live.iter() {
                        let hit = env.verif_transactions()[q0..].iter().any(|ev| matches!(ev, Event::Cancellation { order_id } if order_id == id));
                        if !hit {
                            out.push(fail("C16.certain_probability_always", format!("quiet step {}: p_cancel = 1 but the agents' live order {} was not cancelled", s, id)));
                        }
                    }
                    env.step(&mut rng);
                    if !out.is_empty() { return out; }
                }
            } else {
                let mut env: MarketEnv<2, 3> = MarketEnv::new(0, [1, tk], 1_000_000, true);
                let mut ag = MomentumMarketAgent::new(100, *n, 1, params);
                env.place_order(1, Side::Bid, 1_000_000, 0, Some(1000 * tk)).unwrap();
                env.place_order(1, Side::Ask, 1_000_000, 0, Some(1010 * tk)).unwrap();
                env.step(&mut rng);
                ag.update(&mut env, &mut rng);
                env.step(&mut rng);
                env.place_order(1, Side::Bid, 1_000_000, 0, Some(1008 * tk)).unwrap();
                env.step(&mut rng);
                ag.update(&mut env, &mut rng);
                env.step(&mut rng);
                for s in 0..3usize {
                    let live: Vec<usize> = env.get_orders(1).iter().filter(|o| own(o.trader_id) && o.status == Status::Active).map(|o| o.order_id).collect();
                    if s == 0 && live.is_empty() {
                        out.push(fail("C17.limit_buys_when_rising", format!("multi-asset: after a rise at saturated demand and order ratio 1 no agent order rests ({} traders)", n)));
                    }
                    let q0 = env.verif_transactions().len();
                    ag.update(&mut env, &mut rng);
                    for ev in env.verif_transactions()[q0..].iter() {
                        if let Event::Cancellation { order_id } = ev {
                            let o = env.order(*order_id);
                            if order_id.0 != 1 || o.status != Status::Active || !own(o.trader_id) {
                                out.push(fail("C16.cancel_only_active", format!("quiet step {}: a cancellation was queued for order {:?} (status {:?}, trader {})", s, order_id, o.status, o.trader_id)));
                            }
                        }
                    }
                    for id in live.iter() {
                        let hit = env.verif_transactions()[q0..].iter().any(|ev| matches!(ev, Event::Cancellation { order_id } if order_id.0 == 1 && order_id.1 == *id));
                        if !hit {
                            out.push(fail("C16.certain_probability_always", format!("multi-asset, quiet step {}: p_cancel = 1 but the agents' live order {} was not cancelled", s, id)));
                        }
                    }
                    env.step(&mut rng);
                    if !out.is_empty() { return out; }
                }
            }
        }
        AgentCase::Round { p, tick } => {
            let (d, u) = (round_price_down(*p, f64::from(*tick)), round_price_up(*p, f64::from(*tick)));
            if d % tick != 0 || u % tick != 0 {
                out.push(fail("C16.grid", format!("round_price_down/up({}, {}) = ({}, {}) is off the grid", p, tick, d, u)));
            }
        }
        AgentCase::Random { tick, lo, hi, n, rate, steps, seed } => {
            let mut env: Env = Env::new(0, *tick, 1_000_000, true);
            let mut rng = Xoroshiro128StarStar::seed_from_u64(*seed);
            let mut ag = RandomAgents::new(*n, (*lo, *hi), (10, 20), *tick, *rate);
            for s in 0..*steps {
                let n0 = env.get_orders().len();
                let q0 = env.verif_transactions().len();
                ag.update(&mut env, &mut rng);
                let nn = *n as u32;
                check_cancellations(&env, q0, &|t| t < nn, s as usize, &mut out);
                let acted = (env.get_orders().len() - n0) + env.verif_transactions()[q0..].iter().filter(|ev| matches!(ev, Event::Cancellation { .. })).count();
                if *rate == 0.0 && acted > 0 {
                    out.push(fail("C16.zero_probability_never", format!("step {}: activity rate 0 but {} agents acted", s, acted)));
                }
                if *rate >= 1.0 && acted != *n {
                    out.push(fail("C16.certain_probability_always", format!("step {}: activity rate {} but {} of {} agents acted (each places an order or cancels its live one)", s, rate, acted, n)));
                }
                for o in env.get_orders()[n0..].iter() {
                    if o.price % tick != 0 || o.price < lo * tick || o.price >= hi * tick {
                        out.push(fail("C16.random_range", format!("step {}: price {} outside the configured tick range [{}, {}) x {}", s, o.price, lo, hi, tick)));
                    }
                    if o.vol < 10 || o.vol >= 20 || o.trader_id as usize >= *n {
                        out.push(fail("C16.configured_volume_and_trader", format!("step {}: vol {} trader {}", s, o.vol, o.trader_id)));
                    }
                }
                env.step(&mut rng);
                // at most one live order per agent
                let mut live = vec![0usize; *n];
                for o in env.get_orders().iter() {
                    if o.status == Status::Active || o.status == Status::New {
                        live[o.trader_id as usize] += 1;
                    }
                }
                if live.iter().any(|c| *c > 1) {
                    out.push(fail("C16.one_live_order", format!("step {}: an agent holds more than one live order", s)));
                }
                if !out.is_empty() {
                    return out;
                }
            }
        }
    }
    out
}

/// the fixed family of real-code cases tried after a Kani refutation of C16 / C17
pub fn search_agents(prop: &str, seed: u64) -> Option<(AgentCase, Vec<Failure>)> {
    let mut cases: Vec<AgentCase> = vec![];
    if prop == "C16" || prop == "any" {
        for draw in [0u32, 1, 255, 256, 0x8000_0000, u32::MAX] {
            for p in [0.0f32, 1.0, 1.5] {
                cases.push(AgentCase::CancelProb { p, n_orders: 3, draw });
            }
        }
        for (tick, sigma) in [(1u32, 1.0f64), (2, 1.0), (5, 2.0), (10, 1.0)] {
            for (pl, pm) in [(1.0f32, 0.0f32), (0.0, 0.0), (0.5, 0.5), (1.0, 1.0)] {
                cases.push(AgentCase::Noise { tick, sigma, p_limit: pl, p_market: pm, p_cancel: 0.1, n: 5, steps: 40, seed });
            }
        }
        for pattern in 0..32u32 {
            cases.push(AgentCase::CancelMixed { pattern, n_orders: 5, draw: 0x8000_0000, market: pattern % 2 == 1 });
        }
        cases.push(AgentCase::Noise { tick: 1, sigma: 1.0, p_limit: 1.0, p_market: 0.6, p_cancel: 1.0, n: 6, steps: 40, seed });
        cases.push(AgentCase::Noise { tick: 2, sigma: 1.0, p_limit: 1.0, p_market: 0.0, p_cancel: 1.0, n: 4, steps: 30, seed });
        cases.push(AgentCase::Noise { tick: 1, sigma: 1.0, p_limit: 0.7, p_market: 0.2, p_cancel: 0.0, n: 4, steps: 30, seed });
        for tick in [1u32, 2, 3, 7, 10] {
            for p in [0.0f64, 0.5, 101.0, 100.99999999, 4294967200.0] {
                cases.push(AgentCase::Round { p, tick });
            }
        }
        cases.push(AgentCase::NoiseMarket { tick: 2, bid: 100, ask: 102, sigma: 0.3, n: 5, steps: 40, seed, trading: true });
        cases.push(AgentCase::NoiseMarket { tick: 1, bid: 100, ask: 103, sigma: 0.3, n: 5, steps: 40, seed, trading: true });
        cases.push(AgentCase::NoiseMarket { tick: 5, bid: 100, ask: 115, sigma: 1.0, n: 5, steps: 40, seed, trading: true });
        // trading disabled and the book of the agents' asset crossed (bid above ask): the agents observe the mid-price of a crossed book and must neither abort nor quote on the wrong side of it
        cases.push(AgentCase::NoiseMarket { tick: 1, bid: 110, ask: 100, sigma: 0.3, n: 4, steps: 10, seed, trading: false });
        cases.push(AgentCase::NoiseMarket { tick: 2, bid: 120, ask: 100, sigma: 1.0, n: 3, steps: 10, seed, trading: false });
        cases.push(AgentCase::NoiseMarket { tick: 1, bid: 100, ask: 104, sigma: 0.3, n: 4, steps: 10, seed, trading: false });
        cases.push(AgentCase::Random { tick: 2, lo: 10, hi: 40, n: 8, rate: 0.5, steps: 60, seed });
        cases.push(AgentCase::Random { tick: 1, lo: 5, hi: 6, n: 4, rate: 1.0, steps: 30, seed });
        cases.push(AgentCase::Random { tick: 1, lo: 5, hi: 7, n: 6, rate: 0.6, steps: 80, seed: seed + 1 });
        cases.push(AgentCase::Random { tick: 3, lo: 5, hi: 6, n: 5, rate: 0.4, steps: 80, seed: seed + 2 });
    }
    if prop == "C17" || prop == "C16" || prop == "any" {
        for (decay, ratio) in [(1.0f64, 0.0f64), (1.0, 1.0), (0.5, 0.0)] {
            cases.push(AgentCase::Momentum { path: vec![(100, 102), (90, 92), (80, 82), (95, 97), (95, 97), (110, 112), (100, 102)], n: 3, decay, order_ratio: ratio, seed, demand: 1.0e6, scale: 1.0 });
            cases.push(AgentCase::Momentum { path: vec![(1000, 1002), (1010, 1012), (1020, 1022), (1000, 1002)], n: 2, decay, order_ratio: ratio, seed: seed + 1, demand: 1.0e6, scale: 1.0 });
        }
        // decay < 1: the carried-over signal (M returns to exactly zero, then a flat step)
        cases.push(AgentCase::Momentum { path: vec![(1000, 1002), (1010, 1012), (1005, 1007), (1005, 1007), (1005, 1007)], n: 2, decay: 0.5, order_ratio: 0.0, seed, demand: 1.0e6, scale: 1.0 });
        cases.push(AgentCase::Momentum { path: vec![(1000, 1002), (980, 982), (990, 992), (990, 992)], n: 2, decay: 0.5, order_ratio: 0.0, seed, demand: 1.0e6, scale: 1.0 });
        cases.push(AgentCase::Momentum { path: vec![(1000, 1002), (1032, 1034), (1032, 1034), (1032, 1034)], n: 2, decay: 0.5, order_ratio: 0.0, seed, demand: 1.0e6, scale: 1.0 });
        cases.push(AgentCase::MomentumMarket { path: vec![(995, 1005), (996, 1005), (996, 1006), (995, 1006), (990, 1000), (1000, 1010)], n: 2, seed, decay: 1.0, scale: 1.0 });
        cases.push(AgentCase::MomentumMarket { path: vec![(100, 102), (90, 92), (110, 112), (110, 112)], n: 3, seed, decay: 1.0, scale: 1.0 });
        cases.push(AgentCase::MomentumMarket { path: vec![(1000, 1002), (1032, 1034), (1028, 1030), (1028, 1030), (1000, 1002)], n: 2, seed, decay: 0.5, scale: 1.0 });
        // carried-over signal with limit orders (order ratio 1): the sign of M and the side of the latest move differ at step 3
        cases.push(AgentCase::Momentum { path: vec![(1000, 1002), (1032, 1034), (1028, 1030), (1028, 1030), (1000, 1002)], n: 2, decay: 0.5, order_ratio: 1.0, seed, demand: 1.0e6, scale: 1.0 });
        cases.push(AgentCase::Momentum { path: vec![(1000, 1002), (968, 970), (972, 974), (972, 974), (1000, 1002)], n: 2, decay: 0.5, order_ratio: 1.0, seed, demand: 1.0e6, scale: 1.0 });
        cases.push(AgentCase::Momentum { path: vec![(1000, 1002), (968, 970), (972, 974), (990, 992)], n: 3, decay: 0.5, order_ratio: 2.0, seed: seed + 2, demand: 1.0e6, scale: 1.0 });
        // an order ratio below 1 with demand far above the number of traders: the limit-order propensity order_ratio * |demand * tanh| / n is still >= 1, in both directions
        cases.push(AgentCase::Momentum { path: vec![(1000, 1002), (1032, 1034), (1000, 1002), (1040, 1042), (990, 992)], n: 4, decay: 1.0, order_ratio: 0.25, seed, demand: 1.0e6, scale: 1.0 });
        cases.push(AgentCase::Momentum { path: vec![(1000, 1002), (968, 970), (1000, 1002), (960, 962), (1010, 1012)], n: 3, decay: 1.0, order_ratio: 0.5, seed: seed + 3, demand: 64.0, scale: 1.0 });
        for (n, market, tick) in [(3u16, false, 1u32), (5, true, 2), (2, false, 5), (4, true, 1)] {
            cases.push(AgentCase::MomentumQuiet { n, seed, market, tick });
        }
        // very strong signals (a jump of hundreds of ticks; a large scale): tanh saturates, the documented propensity stays |demand * tanh(scale * M) / n| - in both directions, both variants
        cases.push(AgentCase::Momentum { path: vec![(10000, 10002), (10800, 10802), (10000, 10002), (10900, 10902)], n: 3, decay: 1.0, order_ratio: 1.0, seed, demand: 1.0e6, scale: 1.0 });
        cases.push(AgentCase::Momentum { path: vec![(10000, 10002), (10008, 10010), (10000, 10002), (10010, 10012)], n: 2, decay: 1.0, order_ratio: 0.0, seed, demand: 1.0e6, scale: 50.0 });
        cases.push(AgentCase::MomentumMarket { path: vec![(10000, 10002), (10800, 10802), (10000, 10002), (10900, 10902)], n: 3, seed, decay: 1.0, scale: 1.0 });
        cases.push(AgentCase::MomentumMarket { path: vec![(10000, 10002), (10008, 10010), (10000, 10002), (10010, 10012)], n: 4, seed, decay: 1.0, scale: 50.0 });
        cases.push(AgentCase::MomentumMarket { path: vec![(20000, 20002), (50000, 50002), (20000, 20002)], n: 2, seed, decay: 0.5, scale: 1.0 });
        // very large (valid) prices: a flat market has M = 0 and nobody trades, a half-tick fall sells - the remembered price keeps full precision
        cases.push(AgentCase::Momentum { path: vec![(20_000_000, 20_000_002), (20_000_000, 20_000_002), (20_000_000, 20_000_002)], n: 2, decay: 1.0, order_ratio: 1.0, seed, demand: 1.0e6, scale: 1.0 });
        cases.push(AgentCase::Momentum { path: vec![(3_000_000_000, 3_000_000_002), (3_000_000_000, 3_000_000_002), (2_999_999_999, 3_000_000_002), (3_000_000_000, 3_000_000_002)], n: 2, decay: 1.0, order_ratio: 0.0, seed, demand: 1.0e6, scale: 1.0 });
        cases.push(AgentCase::MomentumMarket { path: vec![(20_000_000, 20_000_002), (20_000_000, 20_000_002), (20_000_000, 20_000_001), (20_000_000, 20_000_002)], n: 2, seed, decay: 1.0, scale: 1.0 });
        cases.push(AgentCase::MomentumMarket { path: vec![(3_000_000_000, 3_000_000_002), (3_000_000_000, 3_000_000_002), (3_000_000_000, 3_000_000_002)], n: 3, seed, decay: 0.5, scale: 1.0 });
        // barely saturated demand: the probability is |demand * tanh(scale * M)| / n with n the NUMBER of traders
        cases.push(AgentCase::Momentum { path: vec![(1000, 1002), (1020, 1022), (1000, 1002), (1030, 1032)], n: 3, decay: 1.0, order_ratio: 0.0, seed, demand: 3.6, scale: 1.0 });
    }
    // seeded random parameterisations on top of the fixed family (tick sizes 1..10, probabilities in {0, (0,1), >= 1}, agent counts, paths)
    {
        use rand::Rng;
        let mut g = Xoroshiro128StarStar::seed_from_u64(seed ^ 0xa9e7);
        let probs = [0.0f32, 0.3, 0.7, 1.0, 1.5];
        if prop == "C16" || prop == "any" {
            for k in 0..24u64 {
                cases.push(AgentCase::Noise { tick: g.gen_range(1..=10), sigma: [0.3, 1.0, 2.0][g.gen_range(0..3)], p_limit: probs[g.gen_range(0..5)], p_market: probs[g.gen_range(0..5)], p_cancel: probs[g.gen_range(0..5)],
                                              n: g.gen_range(1..8), steps: 30, seed: seed + 100 + k });
            }
            for k in 0..16u64 {
                let lo = g.gen_range(3..20u32);
                cases.push(AgentCase::Random { tick: g.gen_range(1..=5), lo, hi: lo + g.gen_range(1..10), n: g.gen_range(1..10), rate: [0.0f32, 0.3, 0.6, 1.0, 1.2][g.gen_range(0..5)], steps: 50, seed: seed + 200 + k });
            }
            for k in 0..10u64 {
                let tick = [1u32, 2, 5][g.gen_range(0..3)];
                let bid = (80 + g.gen_range(0..40)) * tick;
                cases.push(AgentCase::NoiseMarket { tick, bid, ask: bid + g.gen_range(1..5) * tick, sigma: [0.3, 1.0][g.gen_range(0..2)], n: g.gen_range(1..6), steps: 30, seed: seed + 300 + k, trading: true });
            }
        }
        for k in 0..16u64 {
            let mut b = 1000u32;
            let path: Vec<(u32, u32)> = (0..g.gen_range(5..10)).map(|_| { b = (b as i64 + [-40i64, -12, -6, 0, 0, 6, 12, 40][g.gen_range(0..8)]).max(500) as u32; (b, b + 2) }).collect();
            cases.push(AgentCase::Momentum { path, n: g.gen_range(1..6), decay: [1.0, 0.5, 0.25][g.gen_range(0..3)], order_ratio: [0.0, 0.25, 1.0, 2.0][g.gen_range(0..4)], seed: seed + 400 + k, demand: [1.0e6, 64.0][g.gen_range(0..2)], scale: 1.0 });
        }
        for k in 0..6u64 {
            let mut b = 1000u32;
            let path: Vec<(u32, u32)> = (0..g.gen_range(4..8)).map(|_| { b = (b as i64 + [-40i64, -10, 0, 10, 40][g.gen_range(0..5)]).max(500) as u32; (b, b + 2) }).collect();
            cases.push(AgentCase::MomentumMarket { path, n: g.gen_range(1..5), seed: seed + 500 + k, decay: [1.0, 0.5][g.gen_range(0..2)], scale: 1.0 });
        }
    }
    for c in cases {
        let f = run_case(&c);
        // the momentum agents' activity (C16: "activity follows the documented probabilities") is the C17 rule evaluated on the carried-over signal
        if f.iter().any(|x| prop == "any" || x.clause.starts_with(prop) || (prop == "C16" && x.clause.starts_with("C17"))) {
            return Some((c, f));
        }
    }
    None
}
