//! Replay runner and witness search.  NEVER decides a property: it re-executes histories on the real compiled code of the
//! repository working tree and evaluates the executable twins of the contracts, so that a refuted obligation can be
//! accompanied by a concrete failing input.
//!
//!   replay run <history.json>                          exit 0 = all twins hold, 1 = a twin fails (printed as JSON)
//!   replay search --prop Cxx [--depth d] [--seed s] [--random n] [--len l] [--ties] [--out file]
//!                                                       exit 0 = nothing found, 1 = failing history written to --out
//!   replay pytwin <script.json>                         Rust side of the Python/Rust differential twin (C18)
//!   replay truncate [--seed s]                          bounded stand-in of C07: every byte prefix of written snapshots is rejected
mod agentrun;
mod derivetwin;
mod detrun;
mod envrun;
mod marketrun;
mod model;
mod pytwin;
mod shufflerun;
use bourse_book::types::{Event, Order, Side, Status, Trade};
use bourse_book::OrderBook;
use model::*;
use rand::{Rng, SeedableRng};
use rand_xoshiro::Xoroshiro128StarStar;
use serde::{Deserialize, Serialize};

#[derive(Clone, Debug, Serialize, Deserialize, PartialEq)]
#[serde(tag = "op", rename_all = "snake_case")]
pub enum Op {
    Create { side: MSide, vol: u32, trader: u32, price: Option<u32> },
    Place { id: usize },
    CreatePlace { side: MSide, vol: u32, trader: u32, price: Option<u32> },
    Cancel { id: usize },
    Modify { id: usize, price: Option<u32>, vol: Option<u32> },
    EventNew { id: usize },
    EventCancel { id: usize },
    EventModify { id: usize, price: Option<u32>, vol: Option<u32> },
    SetTime { t: u64 },
    Enable,
    Disable,
    ResetTradeVol,
    Reload,
    ReloadFile { pretty: bool },
}

#[derive(Clone, Debug, Serialize, Deserialize)]
pub struct History {
    pub tick: u32,
    pub levels: usize,
    pub trading: bool,
    pub t0: u64,
    pub ops: Vec<Op>,
    #[serde(default)]
    pub note: String,
}

#[derive(Clone, Debug, Serialize)]
pub struct Failure {
    pub step: usize,
    pub op: Option<Op>,
    pub clause: String,
    pub detail: String,
}

fn side_of(s: MSide) -> Side {
    match s {
        MSide::Bid => Side::Bid,
        MSide::Ask => Side::Ask,
    }
}
fn mside(s: Side) -> MSide {
    match s {
        Side::Bid => MSide::Bid,
        Side::Ask => MSide::Ask,
    }
}
fn mstatus(s: Status) -> MStatus {
    match s {
        Status::New => MStatus::New,
        Status::Active => MStatus::Active,
        Status::Filled => MStatus::Filled,
        Status::Cancelled => MStatus::Cancelled,
        Status::Rejected => MStatus::Rejected,
    }
}
fn morder(o: &Order) -> MOrder {
    MOrder { side: mside(o.side), status: mstatus(o.status), arr_time: o.arr_time, end_time: o.end_time, vol: o.vol, start_vol: o.start_vol, price: o.price, trader_id: o.trader_id, order_id: o.order_id, qtime: 0, qseq: 0 }
}
fn mtrade(t: &Trade) -> MTrade {
    MTrade { t: t.t, side: mside(t.side), price: t.price, vol: t.vol, active_order_id: t.active_order_id, passive_order_id: t.passive_order_id }
}
fn same_order(a: &MOrder, b: &MOrder) -> bool {
    a.side == b.side && a.status == b.status && a.arr_time == b.arr_time && a.end_time == b.end_time && a.vol == b.vol && a.start_vol == b.start_vol && a.price == b.price && a.trader_id == b.trader_id && a.order_id == b.order_id
}

/// every observable of a book, for no-op and reload comparisons
#[derive(PartialEq, Debug, Clone)]
struct Snapshot {
    t: u64,
    trade_vol: u32,
    orders: Vec<MOrder>,
    trades: Vec<MTrade>,
    bid_ask: (u32, u32),
    vols: (u32, u32),
    best: ((u32, u32), (u32, u32)),
    best_vol: (u32, u32),
    levels: (Vec<(u32, u32)>, Vec<(u32, u32)>),
    mid: u64,
}

fn snapshot<const N: usize>(b: &OrderBook<N>) -> Snapshot {
    Snapshot {
        t: b.get_time(),
        trade_vol: b.get_trade_vol(),
        orders: b.get_orders().iter().map(|o| morder(o)).collect(),
        trades: b.get_trades().iter().map(mtrade).collect(),
        bid_ask: b.bid_ask(),
        vols: (b.bid_vol(), b.ask_vol()),
        best: (b.bid_best_vol_and_orders(), b.ask_best_vol_and_orders()),
        best_vol: (b.bid_best_vol(), b.ask_best_vol()),
        levels: (b.bid_levels().to_vec(), b.ask_levels().to_vec()),
        mid: b.mid_price().to_bits(),
    }
}

struct Runner<const N: usize> {
    book: OrderBook<N>,
    model: Model,
    trades_since_reset: u64,
    fails: Vec<Failure>,
    stop_at_first: bool,
    /// model-free mode: the reference engine is not driven and not compared (used to keep auditing the real book after it has left the reference engine:
    /// the C02 / C03 / C04 / C12 / C13 audits recompute everything from the real book's own order and trade lists)
    free: bool,
    trading: bool,
    ever_disabled: bool,
}

impl<const N: usize> Runner<N> {
    fn new(h: &History) -> Self {
        Runner { book: OrderBook::new(h.t0, h.tick, h.trading), model: Model::new(h.t0, h.tick, h.trading), trades_since_reset: 0, fails: vec![], stop_at_first: true,
                 free: false, trading: h.trading, ever_disabled: !h.trading }
    }

    fn fail(&mut self, step: usize, op: &Op, clause: &str, detail: String) {
        self.fails.push(Failure { step, op: Some(op.clone()), clause: clause.to_string(), detail });
    }

    /// C02: every view recomputed from get_orders() alone
    fn check_views(&mut self, step: usize, op: &Op) {
        let orders: Vec<MOrder> = self.book.get_orders().iter().map(|o| morder(o)).collect();
        let tick = self.model.tick;
        let act = |s: MSide| orders.iter().filter(move |o| o.status == MStatus::Active && o.side == s);
        let bid = act(MSide::Bid).map(|o| o.price).max().unwrap_or(0);
        let ask = act(MSide::Ask).map(|o| o.price).min().unwrap_or(u32::MAX);
        let bvol: u64 = act(MSide::Bid).map(|o| o.vol as u64).sum();
        let avol: u64 = act(MSide::Ask).map(|o| o.vol as u64).sum();
        let lvl = |s: MSide, p: u32| -> (u32, u32) {
            let v: u64 = act(s).filter(|o| o.price == p).map(|o| o.vol as u64).sum();
            let c = act(s).filter(|o| o.price == p).count();
            (v as u32, c as u32)
        };
        let has_bid = act(MSide::Bid).count() > 0;
        let has_ask = act(MSide::Ask).count() > 0;
        let b = &self.book;
        let mut bad: Vec<(String, String)> = vec![];
        if b.bid_ask() != (bid, ask) {
            bad.push(("C02.bid_ask".into(), format!("bid_ask() = {:?}, recomputed {:?}", b.bid_ask(), (bid, ask))));
        }
        if (b.bid_vol() as u64, b.ask_vol() as u64) != (bvol, avol) {
            bad.push(("C02.side_vol".into(), format!("(bid_vol, ask_vol) = {:?}, recomputed {:?}", (b.bid_vol(), b.ask_vol()), (bvol, avol))));
        }
        let bb = if has_bid { lvl(MSide::Bid, bid) } else { (0, 0) };
        let ba = if has_ask { lvl(MSide::Ask, ask) } else { (0, 0) };
        if b.bid_best_vol_and_orders() != bb || b.bid_best_vol() != bb.0 {
            bad.push(("C02.touch".into(), format!("bid touch (vol, orders) = {:?} / {}, recomputed {:?}", b.bid_best_vol_and_orders(), b.bid_best_vol(), bb)));
        }
        if b.ask_best_vol_and_orders() != ba || b.ask_best_vol() != ba.0 {
            bad.push(("C02.touch".into(), format!("ask touch (vol, orders) = {:?} / {}, recomputed {:?}", b.ask_best_vol_and_orders(), b.ask_best_vol(), ba)));
        }
        let bl = b.bid_levels();
        let al = b.ask_levels();
        for i in 0..N {
            let off = (i as u64) * (tick as u64);
            let eb = if has_bid && (bid as u64) >= off { lvl(MSide::Bid, (bid as u64 - off) as u32) } else { (0, 0) };
            let ea = if has_ask && (ask as u64 + off) <= u32::MAX as u64 { lvl(MSide::Ask, (ask as u64 + off) as u32) } else { (0, 0) };
            // a level that wraps around is outside the documented range: only compare levels that exist
            if has_bid && (bid as u64) >= off && bl[i] != eb {
                bad.push(("C02.levels".into(), format!("bid level {} = {:?}, recomputed {:?}", i, bl[i], eb)));
            }
            if !has_bid && i == 0 && bl[0] != (0, 0) {
                bad.push(("C02.levels".into(), format!("bid level 0 = {:?} on an empty side", bl[0])));
            }
            if has_ask && (ask as u64 + off) <= u32::MAX as u64 && al[i] != ea {
                bad.push(("C02.levels".into(), format!("ask level {} = {:?}, recomputed {:?}", i, al[i], ea)));
            }
            if !has_ask && i == 0 && al[0] != (0, 0) {
                bad.push(("C02.levels".into(), format!("ask level 0 = {:?} on an empty side", al[0])));
            }
        }
        let (sb, cb): (u64, u64) = bl.iter().fold((0, 0), |acc, x| (acc.0 + x.0 as u64, acc.1 + x.1 as u64));
        let (sa, ca): (u64, u64) = al.iter().fold((0, 0), |acc, x| (acc.0 + x.0 as u64, acc.1 + x.1 as u64));
        let (nb, na) = (act(MSide::Bid).count() as u64, act(MSide::Ask).count() as u64);
        if sb > bvol || sa > avol || cb > nb || ca > na {
            bad.push(("C12.levels_account".into(), format!("published levels add up to more than rests on the side: bid {}/{} (orders {}/{}), ask {}/{} (orders {}/{})", sb, bvol, cb, nb, sa, avol, ca, na)));
            bad.push(("C02.levels".into(), "published levels add up to more than rests on the side".into()));
        }
        let l1 = b.level_1_data();
        if (l1.bid_price, l1.ask_price, l1.bid_vol, l1.ask_vol, l1.bid_touch_vol, l1.ask_touch_vol, l1.bid_touch_orders, l1.ask_touch_orders)
            != (b.bid_ask().0, b.bid_ask().1, b.bid_vol(), b.ask_vol(), b.bid_best_vol(), b.ask_best_vol(), b.bid_best_vol_and_orders().1, b.ask_best_vol_and_orders().1)
        {
            bad.push(("C02.level1".into(), "level_1_data disagrees with the individual getters".into()));
        }
        let l2 = b.level_2_data();
        if (l2.bid_price, l2.ask_price, l2.bid_vol, l2.ask_vol) != (b.bid_ask().0, b.bid_ask().1, b.bid_vol(), b.ask_vol()) || l2.bid_price_levels != bl || l2.ask_price_levels != al {
            bad.push(("C02.level2".into(), "level_2_data disagrees with the individual getters".into()));
        }
        let mid = 0.5 * (bid as f64 + ask as f64);
        if b.mid_price() != mid {
            bad.push(("C02.mid_price".into(), format!("mid_price() = {}, recomputed {}", b.mid_price(), mid)));
        }
        if !self.ever_disabled && has_bid && has_ask && bid >= ask {
            bad.push(("C02.uncrossed".into(), format!("best bid {} >= best ask {} although trading was never disabled", bid, ask)));
        }
        // C12: every limit price on the grid
        for o in orders.iter() {
            if !Model::is_market(o) && o.price % tick != 0 {
                bad.push(("C12.grid".into(), format!("order {} has price {} off the tick grid {}", o.order_id, o.price, tick)));
            }
        }
        for (c, d) in bad {
            self.fail(step, op, &c, d);
        }
    }

    fn check_reference(&mut self, step: usize, op: &Op) {
        if self.free {
            return;
        }
        let ro: Vec<MOrder> = self.book.get_orders().iter().map(|o| morder(o)).collect();
        let rt: Vec<MTrade> = self.book.get_trades().iter().map(mtrade).collect();
        if ro.len() != self.model.orders.len() {
            self.fail(step, op, "C01.reference", format!("{} orders, reference engine has {}", ro.len(), self.model.orders.len()));
            return;
        }
        for (a, b) in ro.iter().zip(self.model.orders.iter()) {
            if !same_order(a, b) {
                self.fail(step, op, "C01.reference", format!("order {} is {:?}, reference engine has {:?}", a.order_id, a, b));
                break;
            }
        }
        if rt != self.model.trades {
            let k = rt.iter().zip(self.model.trades.iter()).position(|(a, b)| a != b).unwrap_or(rt.len().min(self.model.trades.len()));
            self.fail(step, op, "C01.reference", format!("trade log differs at index {}: real {:?}, reference {:?}", k, rt.get(k), self.model.trades.get(k)));
        }
        if self.book.get_trade_vol() != self.model.trade_vol {
            self.fail(step, op, "C03.counter", format!("trade_vol {} but reference {}", self.book.get_trade_vol(), self.model.trade_vol));
        }
        if self.book.get_time() != self.model.t {
            self.fail(step, op, "C04.clock", format!("time {} but reference {}", self.book.get_time(), self.model.t));
        }
    }

    /// C03 / C04 / C13 audits between the snapshot before and after one operation
    fn check_step(&mut self, step: usize, op: &Op, before: &Snapshot, after: &Snapshot, trading_before: bool, modified: Option<usize>) {
        let mut bad: Vec<(String, String)> = vec![];
        // ledger: prefix stable
        if after.trades.len() < before.trades.len() || after.trades[..before.trades.len()] != before.trades[..] {
            bad.push(("C03.append_only".into(), "records already in the trade log changed".into()));
        } else {
            let new = &after.trades[before.trades.len()..];
            let mut sum: u64 = 0;
            for t in new {
                sum += t.vol as u64;
                if t.t != after.t {
                    bad.push(("C03.trade_record".into(), format!("trade stamped {} but executed at book time {}", t.t, after.t)));
                }
                if t.vol == 0 {
                    bad.push(("C03.trade_record".into(), "trade with zero volume".into()));
                }
                if t.active_order_id >= after.orders.len() || t.passive_order_id >= after.orders.len() {
                    bad.push(("C03.trade_record".into(), "trade names a non-existent order".into()));
                    continue;
                }
                let a = &after.orders[t.active_order_id];
                let p = &after.orders[t.passive_order_id];
                if a.side == p.side {
                    bad.push(("C03.trade_record".into(), "aggressor and passive order on the same side".into()));
                }
                if t.side != p.side || t.price != p.price {
                    bad.push(("C03.trade_record".into(), format!("trade {:?} does not carry the passive order's side/price ({:?}, {})", t, p.side, p.price)));
                }
                let admits = match a.side {
                    MSide::Bid => a.price >= t.price,
                    MSide::Ask => a.price <= t.price,
                };
                if !admits {
                    bad.push(("C03.trade_record".into(), format!("aggressor limit {} does not admit trade price {}", a.price, t.price)));
                }
            }
            if matches!(op, Op::ResetTradeVol) {
                if after.trade_vol != 0 {
                    bad.push(("C03.counter".into(), "reset_trade_vol left a non-zero counter".into()));
                }
            } else if after.trade_vol as u64 != before.trade_vol as u64 + sum {
                bad.push(("C03.counter".into(), format!("trade_vol went {} -> {} but {} was logged", before.trade_vol, after.trade_vol, sum)));
            }
            // conservation per order
            for (i, o1) in after.orders.iter().enumerate() {
                if i >= before.orders.len() {
                    continue;
                }
                let o0 = &before.orders[i];
                let traded: u64 = new.iter().filter(|t| t.active_order_id == i || t.passive_order_id == i).map(|t| t.vol as u64).sum();
                if Some(i) == modified {
                    continue;
                }
                if (o0.vol as u64) != (o1.vol as u64) + traded {
                    bad.push(("C03.conservation".into(), format!("order {} volume {} -> {} but its logged trades sum to {}", i, o0.vol, o1.vol, traded)));
                }
            }
            if !trading_before && !new.is_empty() {
                bad.push(("C13.no_trades".into(), format!("{} trade(s) recorded while trading is disabled", new.len())));
            }
        }
        // lifecycle
        for (i, o1) in after.orders.iter().enumerate() {
            if o1.order_id != i {
                bad.push(("C04.ids".into(), format!("order at index {} has id {}", i, o1.order_id)));
            }
            if i >= before.orders.len() {
                if o1.status != MStatus::New && !matches!(op, Op::CreatePlace { .. }) {
                    bad.push(("C04.transitions".into(), format!("new order {} does not start as New", i)));
                }
                continue;
            }
            let o0 = &before.orders[i];
            let market = Model::is_market(o0);
            use MStatus::*;
            let ok = match (o0.status, o1.status) {
                (a, b) if a == b => true,
                (New, Active) => !market,
                (New, Filled) => true,
                (New, Cancelled) => market,
                (New, Rejected) => market && !trading_before,
                (Active, Filled) | (Active, Cancelled) => true,
                _ => false,
            };
            if !ok {
                bad.push(("C04.transitions".into(), format!("order {} went {:?} -> {:?}", i, o0.status, o1.status)));
            }
            if matches!(o0.status, Filled | Cancelled | Rejected) && !same_order(o0, o1) {
                bad.push(("C04.terminal_frozen".into(), format!("terminal order {} changed: {:?} -> {:?}", i, o0, o1)));
            }
            if o0.side != o1.side || o0.trader_id != o1.trader_id || o0.order_id != o1.order_id {
                bad.push(("C04.identity".into(), format!("order {} changed id/side/trader", i)));
            }
            if o0.status == New && o1.status != New && o1.arr_time != after.t {
                bad.push(("C04.arr_time".into(), format!("order {} placed at {} has arr_time {}", i, after.t, o1.arr_time)));
            }
            if o0.status != New && o0.arr_time != o1.arr_time {
                bad.push(("C04.arr_time".into(), format!("arr_time of order {} changed after placement", i)));
            }
            let term0 = matches!(o0.status, Filled | Cancelled | Rejected);
            let term1 = matches!(o1.status, Filled | Cancelled | Rejected);
            if !term0 && term1 && o1.end_time != after.t {
                bad.push(("C04.end_time".into(), format!("order {} became {:?} at {} but end_time is {}", i, o1.status, after.t, o1.end_time)));
            }
            if !term1 && o1.end_time != o0.end_time {
                bad.push(("C04.end_time".into(), format!("end_time of non-terminal order {} changed", i)));
            }
            if !trading_before && o0.status == New && o1.status != New && market && o1.status != Rejected {
                bad.push(("C13.rejected".into(), format!("market order {} placed while disabled became {:?}", i, o1.status)));
            }
        }
        if after.orders.len() < before.orders.len() {
            bad.push(("C04.ids".into(), "order list shrank".into()));
        }
        for (c, d) in bad {
            self.fail(step, op, &c, d);
        }
    }

    fn apply(&mut self, step: usize, op: &Op) {
        let before = snapshot(&self.book);
        let trading_before = self.trading;
        let free = self.free;
        let tick = self.model.tick;
        let st = |id: usize| before.orders[id].status;
        let mut modified = None;
        let mut noop_expected = false;
        match op {
            Op::Create { side, vol, trader, price } => {
                let r = self.book.create_order(side_of(*side), *vol, *trader, *price);
                let m = if free { if price.map_or(true, |p| p % tick == 0) { Ok(before.orders.len()) } else { Err(()) } } else { self.model.create(*side, *vol, *trader, *price).map_err(|_| ()) };
                match (&r, &m) {
                    (Ok(a), Ok(b)) if a == b => {}
                    (Err(_), Err(_)) => noop_expected = true,
                    _ => self.fail(step, op, "C12.create_iff", format!("create_order returned {:?} but the grid rule gives {:?}", r.as_ref().map_err(|e| format!("{:?}", e)), m)),
                }
            }
            Op::CreatePlace { side, vol, trader, price } => {
                let r = self.book.create_and_place_order(side_of(*side), *vol, *trader, *price);
                let m = if free { if price.map_or(true, |p| p % tick == 0) { Ok(before.orders.len()) } else { Err(()) } } else { self.model.create(*side, *vol, *trader, *price).map_err(|_| ()) };
                if let (Ok(id), false) = (&m, free) {
                    if !free { self.model.place(*id); }
                }
                match (&r, &m) {
                    (Ok(a), Ok(b)) if a == b => {}
                    (Err(_), Err(_)) => noop_expected = true,
                    _ => self.fail(step, op, "C12.create_iff", format!("create_and_place_order returned {:?} but the grid rule gives {:?}", r.as_ref().map_err(|e| format!("{:?}", e)), m)),
                }
            }
            Op::Place { id } => {
                noop_expected = st(*id) != MStatus::New;
                self.book.place_order(*id);
                if !free { self.model.place(*id); }
            }
            Op::EventNew { id } => {
                noop_expected = st(*id) != MStatus::New;
                self.book.process_event(Event::New { order_id: *id });
                if !free { self.model.place(*id); }
            }
            Op::Cancel { id } => {
                noop_expected = st(*id) != MStatus::Active;
                self.book.cancel_order(*id);
                if !free { self.model.cancel(*id); }
            }
            Op::EventCancel { id } => {
                noop_expected = st(*id) != MStatus::Active;
                self.book.process_event(Event::Cancellation { order_id: *id });
                if !free { self.model.cancel(*id); }
            }
            Op::Modify { id, price, vol } => {
                noop_expected = st(*id) != MStatus::Active || (price.is_none() && vol.is_none());
                modified = Some(*id);
                self.book.modify_order(*id, *price, *vol);
                if !free { self.model.modify(*id, *price, *vol); }
            }
            Op::EventModify { id, price, vol } => {
                noop_expected = st(*id) != MStatus::Active || (price.is_none() && vol.is_none());
                modified = Some(*id);
                self.book.process_event(Event::Modify { order_id: *id, new_price: *price, new_vol: *vol });
                if !free { self.model.modify(*id, *price, *vol); }
            }
            Op::SetTime { t } => {
                self.book.set_time(*t);
                self.model.t = *t;
            }
            Op::Enable => {
                self.book.enable_trading();
                self.model.trading = true;
                self.trading = true;
            }
            Op::Disable => {
                self.book.disable_trading();
                self.model.trading = false;
                self.model.ever_disabled = true;
                self.trading = false;
                self.ever_disabled = true;
            }
            Op::ResetTradeVol => {
                self.book.reset_trade_vol();
                self.model.trade_vol = 0;
            }
            Op::Reload => {
                let s = serde_json::to_string(&self.book).unwrap();
                match serde_json::from_str::<OrderBook<N>>(&s) {
                    Ok(b) => self.book = b,
                    Err(e) => self.fail(step, op, "C07.reload", format!("snapshot does not load: {}", e)),
                }
                noop_expected = true;
            }
            Op::ReloadFile { pretty } => {
                let p = std::env::temp_dir().join(format!("bourse_replay_{}_{}.json", std::process::id(), step));
                // a longer file already at the path must not matter
                std::fs::write(&p, vec![b'#'; 1 << 16]).unwrap();
                match self.book.save_json(&p, *pretty) {
                    Ok(()) => match OrderBook::<N>::load_json(&p) {
                        Ok(b) => self.book = b,
                        Err(e) => self.fail(step, op, "C07.reload_file", format!("snapshot written over an existing file does not load: {}", e)),
                    },
                    Err(e) => self.fail(step, op, "C07.reload_file", format!("save failed: {}", e)),
                }
                let _ = std::fs::remove_file(&p);
                noop_expected = true;
            }
        }
        let after = snapshot(&self.book);
        if noop_expected && before != after {
            let clause = match op {
                Op::Reload | Op::ReloadFile { .. } => "C07.reload",
                Op::Create { .. } | Op::CreatePlace { .. } => "C12.rejected_no_trace",
                _ => "C04.noop",
            };
            self.fail(step, op, clause, "a request that must change nothing changed an observable of the book".into());
        }
        if matches!(op, Op::SetTime { .. } | Op::Enable | Op::Disable) {
            let mut b2 = before.clone();
            b2.t = after.t;
            if b2 != after {
                self.fail(step, op, if matches!(op, Op::SetTime { .. }) { "C04.noop" } else { "C13.toggle" }, "clock change / trading toggle changed another observable".into());
            }
        }
        if let Some(id) = modified {
            // C06: identity of a modified order
            if id < before.orders.len() {
                let (o0, o1) = (&before.orders[id], &after.orders[id]);
                if o0.arr_time != o1.arr_time || o0.start_vol != o1.start_vol || o0.side != o1.side || o0.trader_id != o1.trader_id {
                    self.fail(step, op, "C06.identity", format!("modify changed id/side/trader/arr_time/start_vol of order {}", id));
                }
            }
        }
        self.check_step(step, op, &before, &after, trading_before, modified);
        self.check_reference(step, op);
        self.check_views(step, op);
    }
}

fn run_levels<const N: usize>(h: &History) -> Vec<Failure> {
    run_levels_mode::<N>(h, false)
}

/// `free`: model-free audits only, run to the end of the history (every failure is collected)
fn run_levels_mode<const N: usize>(h: &History, free: bool) -> Vec<Failure> {
    let mut r = Runner::<N>::new(h);
    r.free = free;
    r.stop_at_first = !free;
    for (k, op) in h.ops.iter().enumerate() {
        // ids must exist: a history that names a missing order is invalid, not a failure
        let max_id = if free { r.book.get_orders().len() } else { r.model.orders.len() };
        let id = match op {
            Op::Place { id } | Op::Cancel { id } | Op::Modify { id, .. } | Op::EventNew { id } | Op::EventCancel { id } | Op::EventModify { id, .. } => Some(*id),
            _ => None,
        };
        if let Some(id) = id {
            if id >= max_id {
                continue;
            }
        }
        let res = std::panic::catch_unwind(std::panic::AssertUnwindSafe(|| r.apply(k, op)));
        if let Err(e) = res {
            let msg = e.downcast_ref::<String>().cloned().or_else(|| e.downcast_ref::<&str>().map(|s| s.to_string())).unwrap_or_default();
            r.fails.push(Failure { step: k, op: Some(op.clone()), clause: "panic".into(), detail: format!("the real code panicked: {}", msg) });
            break;
        }
        if !r.fails.is_empty() && r.stop_at_first {
            break;
        }
    }
    r.fails
}

/// the model-free audits over the whole history (the real book keeps being audited after it has left the reference engine)
pub fn run_history_free(h: &History) -> Vec<Failure> {
    match h.levels {
        1 => run_levels_mode::<1>(h, true),
        2 => run_levels_mode::<2>(h, true),
        3 => run_levels_mode::<3>(h, true),
        5 => run_levels_mode::<5>(h, true),
        24 => run_levels_mode::<24>(h, true),
        _ => run_levels_mode::<10>(h, true),
    }
}

/// failures of a history for a property: the lock-step run against the reference engine; when that run stops at a failure of ANOTHER property, the model-free
/// audits of the rest of the history as well
fn fails_for(h: &History, prop: &str) -> Vec<Failure> {
    let mut f = run_history(h);
    if prop == "C07" && !f.is_empty() && !f.iter().any(|x| matches_prop(x, prop)) {
        // C07 also says: a reloaded book stays indistinguishable from the original under every subsequent sequence of operations.  A history that deviates from the
        // reference engine AFTER a reload, and does not deviate at all when the reloads are left out, is a failure of the snapshot - not of the matching rules.
        let first_reload = h.ops.iter().position(|o| matches!(o, Op::Reload | Op::ReloadFile { .. }));
        if let Some(r) = first_reload {
            if f.iter().all(|x| x.step > r) {
                let mut h2 = h.clone();
                h2.ops = h.ops.iter().filter(|o| !matches!(o, Op::Reload | Op::ReloadFile { .. })).cloned().collect();
                if run_history(&h2).is_empty() {
                    for x in f.iter_mut() {
                        x.clause = format!("C07.continuation ({})", x.clause);
                    }
                    return f;
                }
            }
        }
    }
    if f.is_empty() || f.iter().any(|x| matches_prop(x, prop)) {
        return f;
    }
    let g = run_history_free(h);
    if g.iter().any(|x| matches_prop(x, prop)) { g } else { f }
}

pub fn run_history(h: &History) -> Vec<Failure> {
    match h.levels {
        1 => run_levels::<1>(h),
        2 => run_levels::<2>(h),
        3 => run_levels::<3>(h),
        5 => run_levels::<5>(h),
        24 => run_levels::<24>(h),
        _ => run_levels::<10>(h),
    }
}

// ------------------------------------------------------------------------------------------------------------ search
struct Gen {
    rng: Xoroshiro128StarStar,
    ties: bool,
    offgrid_modify: bool,
    reload_heavy: bool,
}

impl Gen {
    /// small alphabet of the property statements: 3 price levels x 2 volumes x 2 sides x limit/market, cancel/modify of every id,
    /// clock advance 0 or 1, toggles, reloads
    fn alphabet(&self, tick: u32, n_orders: usize, t: u64) -> Vec<Op> {
        let mut v = vec![];
        let prices = [10 * tick, 11 * tick, 12 * tick];
        for side in [MSide::Bid, MSide::Ask] {
            for vol in [2u32, 5] {
                for p in prices {
                    v.push(Op::CreatePlace { side, vol, trader: 1, price: Some(p) });
                }
                v.push(Op::CreatePlace { side, vol, trader: 2, price: None });
            }
            v.push(Op::Create { side, vol: 3, trader: 3, price: Some(prices[1]) });
            v.push(Op::Create { side, vol: 4, trader: 3, price: None });
        }
        for id in 0..n_orders {
            v.push(Op::Cancel { id });
            v.push(Op::Place { id });
            v.push(Op::Modify { id, price: None, vol: Some(1) });
            v.push(Op::Modify { id, price: None, vol: Some(5) });
            v.push(Op::Modify { id, price: Some(prices[0]), vol: None });
            v.push(Op::Modify { id, price: Some(prices[2]), vol: Some(4) });
        }
        v.push(Op::SetTime { t: t + 1 });
        v.push(Op::Disable);
        v.push(Op::Enable);
        v.push(Op::Reload);
        v
    }

    fn random_history(&mut self, len: usize, tick: u32, levels: usize) -> History {
        let mut ops = vec![];
        // the clock is a 64-bit count: some histories run across a multiple of 2^32 (or start far out), where a narrower time field would wrap
        let mut t = match self.rng.gen_range(0..8) {
            0 => (1u64 << 32) - self.rng.gen_range(1..20),
            1 => (1u64 << 33) - self.rng.gen_range(1..10),
            2 => (u64::MAX >> 1) - 1000,
            _ => 0u64,
        };
        if t > 0 {
            ops.push(Op::SetTime { t });
        }
        let mut n = 0usize;
        // one history in four lives next to price 0 (0 is a multiple of every tick size: a legal price)
        // ... one near the top of the price range (limit prices stay strictly below 2^32 - 1), one in the middle of it
        let base = match self.rng.gen_range(0..12) { 0 | 1 | 2 => 0u32, 3 => (u32::MAX - 1) / tick - 5, 4 => (1u32 << 31) / tick, _ => 20u32 };
        let mut big_left = 2u32;
        // one history in three is confined to two price levels: queues at a level get long, so queue ORDER (not only level totals) decides what happens next
        let span = if self.rng.gen_range(0..3) == 0 { 2u32 } else { 6u32 };
        let mut last_q: Option<(usize, u32)> = None;      // (id, price) of the order queued by the previous operation
        let mut created = 0usize;                          // exact number of orders that exist (what fix_ids computes), so that `last_q` names the right order
        for _ in 0..len {
            if !self.ties && last_q.is_some() && self.rng.gen_range(0..8) == 0 {
                // modify the order that was queued an instant ago, without a clock advance in between (its own key is the only one with this timestamp)
                let (id, lp) = last_q.unwrap();
                let p = match self.rng.gen_range(0..3) { 0 => None, 1 => Some(lp), _ => Some((base + self.rng.gen_range(0..6)) * tick) };
                let v = if self.rng.gen_bool(0.6) { Some(self.rng.gen_range(1..12)) } else { None };
                ops.push(if self.rng.gen_bool(0.5) { Op::Modify { id, price: p, vol: v } } else { Op::EventModify { id, price: p, vol: v } });
                last_q = Some((id, p.unwrap_or(lp)));
                continue;
            }
            last_q = None;
            if !self.ties || self.rng.gen_bool(0.4) {
                t += if self.rng.gen_range(0..50) == 0 { (1u64 << 32) - self.rng.gen_range(0..3) } else { self.rng.gen_range(1..3) };
                ops.push(Op::SetTime { t });
            }
            let r = self.rng.gen_range(0..100);
            let side = if self.rng.gen_bool(0.5) { MSide::Bid } else { MSide::Ask };
            let price = (base + self.rng.gen_range(0..span)) * tick;
            let mut vol = self.rng.gen_range(1..8);
            if big_left > 0 && self.rng.gen_range(0..60) == 0 {
                big_left -= 1;
                vol = (1u32 << 30) + self.rng.gen_range(0..5);
            }
            let op = if r < 40 || n == 0 {
                n += 1;
                let lim = self.rng.gen_bool(0.8);
                created += 1;
                if lim {
                    last_q = Some((created - 1, price));
                }
                Op::CreatePlace { side, vol, trader: self.rng.gen_range(0..3), price: if lim { Some(price) } else { None } }
            } else if r < 45 {
                n += 1;
                created += 1;
                Op::Create { side, vol, trader: 0, price: if self.rng.gen_bool(0.7) { Some(price) } else { None } }
            } else if r < 50 {
                if (price + 1) % tick == 0 {
                    created += 1;
                }
                Op::Create { side, vol, trader: 0, price: Some(price + 1) }
            } else if r < 55 {
                Op::Place { id: self.rng.gen_range(0..n) }
            } else if r < 67 {
                Op::Cancel { id: self.rng.gen_range(0..n) }
            } else if r < 88 {
                let id = self.rng.gen_range(0..n);
                let p = if self.rng.gen_bool(0.5) { Some(if self.offgrid_modify && self.rng.gen_bool(0.3) { price + 1 } else { price }) } else { None };
                let v = if self.rng.gen_bool(0.7) { Some(self.rng.gen_range(1..9)) } else { None };
                if self.rng.gen_bool(0.5) { Op::Modify { id, price: p, vol: v } } else { Op::EventModify { id, price: p, vol: v } }
            } else if r < 89 {
                Op::Disable
            } else if r < 91 {
                Op::Enable
            } else if r < 93 || (r < 97 && !self.reload_heavy) {
                // (in snapshot-heavy histories the slots 93..96 go to reloads; the counter reset keeps its share: a snapshot must restore the counter, not recompute it)
                if r < 92 || r >= 95 { Op::ResetTradeVol } else { Op::Enable }
            } else if r < 99 {
                Op::Reload
            } else {
                Op::ReloadFile { pretty: self.rng.gen_bool(0.5) }
            };
            ops.push(op);
        }
        // tick > 1 makes price+1 off-grid; with tick 1 it is on the grid and the create simply succeeds
        // most histories start trading-enabled at time 0; some start disabled, some with the clock already running
        let trading = self.rng.gen_range(0..8) != 0;
        History { tick, levels, trading, t0: 0, ops: fix_ids(ops, tick), note: String::new() }
    }
}

/// recompute how many orders exist so that ids stay valid when creations are rejected
fn fix_ids(ops: Vec<Op>, tick: u32) -> Vec<Op> {
    let mut n = 0usize;
    let mut out = vec![];
    for op in ops {
        match &op {
            Op::Create { price, .. } | Op::CreatePlace { price, .. } => {
                if price.map_or(true, |p| p % tick == 0) {
                    n += 1;
                }
                out.push(op);
            }
            Op::Place { id } | Op::Cancel { id } | Op::Modify { id, .. } | Op::EventNew { id } | Op::EventCancel { id } | Op::EventModify { id, .. } => {
                if n > 0 {
                    let id2 = *id % n;
                    out.push(match op {
                        Op::Place { .. } => Op::Place { id: id2 },
                        Op::Cancel { .. } => Op::Cancel { id: id2 },
                        Op::Modify { price, vol, .. } => Op::Modify { id: id2, price, vol },
                        Op::EventNew { .. } => Op::EventNew { id: id2 },
                        Op::EventCancel { .. } => Op::EventCancel { id: id2 },
                        Op::EventModify { price, vol, .. } => Op::EventModify { id: id2, price, vol },
                        o => o,
                    });
                }
            }
            _ => out.push(op),
        }
    }
    out
}

fn matches_prop(f: &Failure, prop: &str) -> bool {
    prop == "any" || f.clause.starts_with(prop) || f.clause == "panic"
        || (prop == "C06" && f.clause.starts_with("C01"))  // modification semantics are part of the reference engine
        || (prop == "C01" && f.clause.starts_with("C06"))
        || (prop == "C05")
        // C13 includes "once trading is enabled again every order matches the resting book by the usual rules": in a history that
        // toggles trading, a deviation from the reference engine or an inconsistent view is a C13 failure as well (see matches_hist)
        || (prop == "C13T" && (f.clause.starts_with("C01") || f.clause.starts_with("C02") || f.clause.starts_with("C03") || f.clause.starts_with("C13")))
}

fn shrink(mut h: History, prop: &str) -> History {
    // greedy removal of single operations while the failure (same property) persists
    let mut changed = true;
    while changed {
        changed = false;
        let mut i = 0;
        while i < h.ops.len() {
            if matches!(h.ops[i], Op::SetTime { .. }) && prop != "C05" {
                // a clock advance is never removed: that would manufacture equal timestamps (the domain of the recorded C05 findings)
                i += 1;
                continue;
            }
            let mut h2 = h.clone();
            h2.ops.remove(i);
            h2.ops = fix_ids_keep(h2.ops);
            if fails_for(&h2, prop).iter().any(|f| matches_prop(f, prop)) {
                h = h2;
                changed = true;
            } else {
                i += 1;
            }
        }
    }
    h
}
fn fix_ids_keep(ops: Vec<Op>) -> Vec<Op> {
    ops
}

fn search(prop: &str, depth: usize, seed: u64, nrandom: usize, len: usize, ties: bool, offgrid: bool, budget_s: u64) -> Option<(History, Vec<Failure>)> {
    let t0 = std::time::Instant::now();
    let toggling = prop == "C13";
    let prop = if toggling { "C13T" } else { prop };
    // 1. exhaustive DFS over the small alphabet
    for tick in [1u32, 2, 4, 3] {
        let gen = Gen { rng: Xoroshiro128StarStar::seed_from_u64(seed), ties, offgrid_modify: offgrid, reload_heavy: prop == "C07" };
        let mut stack: Vec<Vec<Op>> = vec![vec![]];
        while let Some(prefix) = stack.pop() {
            if t0.elapsed().as_secs() > budget_s / 2 {
                break;
            }
            let h = History { tick, levels: 3, trading: true, t0: 0, ops: prefix.clone(), note: String::new() };
            let fails = fails_for(&h, prop);
            if fails.iter().any(|f| matches_prop(f, prop)) {
                let h = shrink(h, prop);
                let fails = fails_for(&h, prop);
                return Some((h, fails));
            }
            if prefix.len() >= depth {
                continue;
            }
            let mut n = 0usize;
            let mut t = 0u64;
            for op in &prefix {
                match op {
                    Op::Create { price, .. } | Op::CreatePlace { price, .. } => {
                        if price.map_or(true, |p| p % tick == 0) {
                            n += 1
                        }
                    }
                    Op::SetTime { t: tt } => t = *tt,
                    _ => {}
                }
            }
            // the order queued by the operation just before (if any): modifying THAT order in the same instant re-queues it under its own key - no other
            // order shares the timestamp, so this is inside the clock discipline (and outside the domain of the C05 findings)
            let last_q: Option<usize> = match prefix.last() {
                Some(Op::CreatePlace { price, .. }) if price.map_or(true, |p| p % tick == 0) && n > 0 => Some(n - 1),
                Some(Op::Place { id }) | Some(Op::Modify { id, .. }) => Some(*id),
                _ => None,
            };
            for op in gen.alphabet(tick, n, t) {
                if let Op::Modify { id, .. } = &op {
                    if !ties && Some(*id) == last_q {
                        let mut p0 = prefix.clone();
                        p0.push(op.clone());
                        if p0.len() <= depth * 2 {
                            stack.push(p0);
                        }
                    }
                }
                // clock discipline: unless ties are asked for, every queueing operation is preceded by a clock advance
                let mut p = prefix.clone();
                let queues = matches!(op, Op::CreatePlace { .. } | Op::Place { .. } | Op::Modify { .. });
                if queues && !ties {
                    t += 1;
                    p.push(Op::SetTime { t });
                }
                if matches!(op, Op::SetTime { .. }) && !ties {
                    continue;
                }
                p.push(op);
                if p.len() <= depth * 2 {
                    stack.push(p);
                }
            }
        }
    }
    // 2. seeded random long histories over wider alphabets
    let mut gen = Gen { rng: Xoroshiro128StarStar::seed_from_u64(seed ^ 0x9e37), ties, offgrid_modify: offgrid, reload_heavy: prop == "C07" };
    for k in 0..nrandom {
        if t0.elapsed().as_secs() > budget_s {
            break;
        }
        let tick = [1u32, 2, 5, 4, 3, 8, 10, 1, 2, 7][k % 10];      // powers of two, odd and composite tick sizes
        let levels = [3usize, 1, 10, 5][k % 4];
        let mut h = gen.random_history(len, tick, levels);
        if toggling {
            // every history of a C13 search switches trading off and on again a few times
            let n = h.ops.len();
            for (k, at) in [n / 5, 2 * n / 5, 3 * n / 5, 4 * n / 5].iter().enumerate() {
                h.ops.insert(*at + k, if k % 2 == 0 { Op::Disable } else { Op::Enable });
            }
        }
        let fails = fails_for(&h, prop);
        if fails.iter().any(|f| matches_prop(f, prop)) {
            let h = shrink(h, prop);
            let fails = fails_for(&h, prop);
            return Some((h, fails));
        }
    }
    None
}

fn truncate_check(seed: u64) -> (usize, Vec<String>) {
    // bounded stand-in (C07): snapshots of generated states, every byte prefix must be rejected with Err (no panic, no Ok)
    let mut gen = Gen { rng: Xoroshiro128StarStar::seed_from_u64(seed), ties: false, offgrid_modify: false, reload_heavy: false };
    let mut checked = 0usize;
    let mut bad = vec![];
    for k in 0..4 {
        let h = gen.random_history(12 + 6 * k, 1 + (k as u32 % 2), 3);
        let mut r = Runner::<3>::new(&h);
        for (i, op) in h.ops.iter().enumerate() {
            let n = r.model.orders.len();
            let id = match op {
                Op::Place { id } | Op::Cancel { id } | Op::Modify { id, .. } | Op::EventNew { id } | Op::EventCancel { id } | Op::EventModify { id, .. } => Some(*id),
                _ => None,
            };
            if id.map_or(false, |x| x >= n) || matches!(op, Op::ReloadFile { .. }) {
                continue;
            }
            r.apply(i, op);
        }
        for pretty in [false, true] {
            let p = std::env::temp_dir().join(format!("bourse_trunc_{}_{}.json", std::process::id(), k));
            r.book.save_json(&p, pretty).unwrap();
            let bytes = std::fs::read(&p).unwrap();
            for cut in 0..bytes.len() {
                std::fs::write(&p, &bytes[..cut]).unwrap();
                let res = std::panic::catch_unwind(|| OrderBook::<3>::load_json(&p).is_ok());
                checked += 1;
                match res {
                    Ok(false) => {}
                    Ok(true) => bad.push(format!("prefix of {} / {} bytes (pretty={}) loaded as a book", cut, bytes.len(), pretty)),
                    Err(_) => bad.push(format!("prefix of {} / {} bytes (pretty={}) aborted the process", cut, bytes.len(), pretty)),
                }
            }
            let _ = std::fs::remove_file(&p);
        }
    }
    (checked, bad)
}


/// bounded stand-in (C07, market part): random two-asset markets - with trading switched off and crossing orders placed while it is off -
/// are written to a file and to a string, loaded back, and must show the same orders, trades and market data; a continuation must
/// then produce the same results on both.
fn market_snapshot_check(seed: u64, rounds: usize) -> (usize, Vec<String>) {
    use bourse_book::Market;
    let mut rng = Xoroshiro128StarStar::seed_from_u64(seed ^ 0x3a7);
    let mut bad = vec![];
    let mut checked = 0usize;
    fn obs(m: &Market<2, 3>) -> String {
        let mut s = String::new();
        for a in 0..2 {
            let b = m.get_order_book(a);
            s.push_str(&format!("{:?}|{:?}|{:?}|{:?}|{}|{}|{};", b.get_orders().iter().map(|o| morder(o)).collect::<Vec<_>>(), b.get_trades().iter().map(mtrade).collect::<Vec<_>>(),
                                b.bid_ask(), (b.bid_vol(), b.ask_vol(), b.bid_levels(), b.ask_levels()), b.get_time(), b.get_trade_vol(), b.mid_price()));
        }
        s
    }
    for k in 0..rounds {
        let mut m: Market<2, 3> = Market::new(0, [1, 2], true);
        let mut t = 0u64;
        let n_ops = 8 + (k % 5) * 6;
        let mut ops = |m: &mut Market<2, 3>, rng: &mut Xoroshiro128StarStar, n: usize, t: &mut u64| {
            for _ in 0..n {
                *t += 1;
                m.set_time(*t);
                let a = rng.gen_range(0..2usize);
                let tick = [1u32, 2][a];
                let r = rng.gen_range(0..100);
                if r < 55 {
                    let side = if rng.gen_bool(0.5) { Side::Bid } else { Side::Ask };
                    let price = if rng.gen_bool(0.85) { Some((20 + rng.gen_range(0..6)) * tick) } else { None };
                    let _ = m.create_and_place_order(a, side, rng.gen_range(1..9), 1, price);
                } else if r < 60 {
                    let _ = m.create_order(a, Side::Bid, 3, 2, Some(22 * tick));
                } else if r < 75 {
                    let n = m.get_orders(a).len();
                    if n > 0 { m.cancel_order((a, rng.gen_range(0..n))); }
                } else if r < 88 {
                    let n = m.get_orders(a).len();
                    if n > 0 { m.modify_order((a, rng.gen_range(0..n)), if rng.gen_bool(0.5) { Some((20 + rng.gen_range(0..6)) * tick) } else { None }, Some(rng.gen_range(1..9))); }
                } else if r < 94 {
                    m.disable_trading();
                } else {
                    m.enable_trading();
                }
            }
        };
        ops(&mut m, &mut rng, n_ops, &mut t);
        if k % 2 == 0 {
            // make sure crossed books occur: switch trading off and cross both assets
            m.disable_trading();
            t += 1; m.set_time(t);
            let _ = m.create_and_place_order(0, Side::Bid, 5, 7, Some(30));
            t += 1; m.set_time(t);
            let _ = m.create_and_place_order(0, Side::Ask, 5, 7, Some(10));
        }
        if k % 3 == 1 {
            // one book's own clock runs ahead of the others (reachable through get_order_book_mut): a snapshot restores every book's own time
            m.get_order_book_mut(1).set_time(t + 100 + k as u64);
        }
        let before = obs(&m);
        // through a string
        let js = serde_json::to_string(&m).unwrap();
        let mut copies: Vec<(&str, Market<2, 3>)> = vec![];
        match serde_json::from_str::<Market<2, 3>>(&js) {
            Ok(x) => copies.push(("in-memory", x)),
            Err(e) => bad.push(format!("round {}: in-memory snapshot does not load: {}", k, e)),
        }
        // through files, compact and pretty
        for pretty in [false, true] {
            let p = std::env::temp_dir().join(format!("bourse_market_{}_{}_{}.json", std::process::id(), k, pretty));
            std::fs::write(&p, vec![b'#'; 1 << 16]).unwrap();
            match m.save_json(&p, pretty) {
                Ok(()) => match Market::<2, 3>::load_json(&p) {
                    Ok(x) => copies.push((if pretty { "file (pretty)" } else { "file (compact)" }, x)),
                    Err(e) => bad.push(format!("round {}: a snapshot written by Market::save_json(pretty={}) is rejected by Market::load_json: {}", k, pretty, e)),
                },
                Err(e) => bad.push(format!("round {}: save failed: {}", k, e)),
            }
            let _ = std::fs::remove_file(&p);
        }
        let mut rng2s: Vec<Xoroshiro128StarStar> = copies.iter().map(|_| rng.clone()).collect();
        let mut t0 = t;
        let mut rng_main = rng.clone();
        ops(&mut m, &mut rng_main, 10, &mut t0);
        let after = obs(&m);
        for (i, (how, c)) in copies.iter_mut().enumerate() {
            checked += 1;
            if obs(c) != before {
                bad.push(format!("round {}: the market loaded {} differs from the one that was saved", k, how));
                continue;
            }
            let mut tc = t;
            ops(c, &mut rng2s[i], 10, &mut tc);
            if obs(c) != after {
                bad.push(format!("round {}: the market loaded {} diverges from the original under the same continuation", k, how));
            }
        }
        rng = rng_main;
        if !bad.is_empty() { break; }
    }
    (checked, bad)
}

fn arg(args: &[String], name: &str) -> Option<String> {
    args.iter().position(|a| a == name).and_then(|i| args.get(i + 1).cloned())
}

fn main() {
    std::panic::set_hook(Box::new(|_| {}));
    let args: Vec<String> = std::env::args().collect();
    let cmd = args.get(1).map(|s| s.as_str()).unwrap_or("");
    match cmd {
        "run" => {
            let text = std::fs::read_to_string(&args[2]).expect("history file");
            let v: serde_json::Value = serde_json::from_str(&text).unwrap();
            let hv0 = if v.get("witness").map_or(false, |w| !w.is_null()) { v["witness"]["history"].clone() } else if v.get("history").is_some() { v["history"].clone() } else { v.clone() };
            if hv0.get("case").is_some() {
                let c: agentrun::AgentCase = serde_json::from_value(hv0).expect("agent case format");
                let fails = agentrun::run_case(&c);
                println!("{}", serde_json::to_string_pretty(&serde_json::json!({"case": c, "failures": fails})).unwrap());
                std::process::exit(if fails.is_empty() { 0 } else { 1 });
            }
            if hv0.get("ticks").is_some() && hv0.get("env").is_none() && hv0.get("tick").is_none() {
                let h: marketrun::MarketHistory = serde_json::from_value(hv0).expect("market history format");
                let fails = marketrun::run_market_history(&h);
                println!("{}", serde_json::to_string_pretty(&serde_json::json!({"ops": h.ops.len(), "failures": fails})).unwrap());
                std::process::exit(if fails.is_empty() { 0 } else { 1 });
            }
            if hv0.get("env").is_some() {
                let h: envrun::EnvHistory = serde_json::from_value(hv0).expect("env history format");
                let fails = envrun::run_env_history(&h);
                println!("{}", serde_json::to_string_pretty(&serde_json::json!({"ops": h.ops.len(), "failures": fails})).unwrap());
                std::process::exit(if fails.is_empty() { 0 } else { 1 });
            }
            let hv = if v.get("witness").map_or(false, |w| !w.is_null()) { v["witness"]["history"].clone() } else if v.get("history").is_some() { v["history"].clone() } else { v.clone() };
            let h: History = serde_json::from_value(hv).expect("history format");
            let fails = run_history(&h);
            println!("{}", serde_json::to_string_pretty(&serde_json::json!({"ops": h.ops.len(), "failures": fails})).unwrap());
            std::process::exit(if fails.is_empty() { 0 } else { 1 });
        }
        "search" => {
            let prop = arg(&args, "--prop").unwrap_or("any".into());
            let depth: usize = arg(&args, "--depth").map_or(3, |s| s.parse().unwrap());
            let seed: u64 = arg(&args, "--seed").map_or(0, |s| s.parse().unwrap());
            let nrandom: usize = arg(&args, "--random").map_or(300, |s| s.parse().unwrap());
            let len: usize = arg(&args, "--len").map_or(40, |s| s.parse().unwrap());
            let budget: u64 = arg(&args, "--budget").map_or(60, |s| s.parse().unwrap());
            let ties = args.iter().any(|a| a == "--ties");
            let offgrid = args.iter().any(|a| a == "--offgrid");
            if args.iter().any(|a| a == "--market") {
                match marketrun::search_market(&prop, seed, nrandom, budget) {
                    Some((h, fails)) => {
                        let doc = serde_json::json!({"history": h, "failures": fails});
                        if let Some(out) = arg(&args, "--out") {
                            std::fs::write(out, serde_json::to_string_pretty(&doc).unwrap()).unwrap();
                        }
                        println!("{}", serde_json::to_string_pretty(&doc).unwrap());
                        std::process::exit(1);
                    }
                    None => {
                        println!("{{\"found\": false}}");
                        return;
                    }
                }
            }
            if args.iter().any(|a| a == "--env") {
                match envrun::search_env(&prop, seed, nrandom, budget, args.iter().any(|a| a == "--overrun"), args.iter().any(|a| a == "--overrun-other")) {
                    Some((h, fails)) => {
                        let doc = serde_json::json!({"history": h, "failures": fails});
                        if let Some(out) = arg(&args, "--out") {
                            std::fs::write(out, serde_json::to_string_pretty(&doc).unwrap()).unwrap();
                        }
                        println!("{}", serde_json::to_string_pretty(&doc).unwrap());
                        std::process::exit(1);
                    }
                    None => {
                        println!("{{\"found\": false}}");
                        return;
                    }
                }
            }
            match search(&prop, depth, seed, nrandom, len, ties, offgrid, budget) {
                Some((h, fails)) => {
                    let doc = serde_json::json!({"history": h, "failures": fails});
                    if let Some(out) = arg(&args, "--out") {
                        std::fs::write(out, serde_json::to_string_pretty(&doc).unwrap()).unwrap();
                    }
                    println!("{}", serde_json::to_string_pretty(&doc).unwrap());
                    std::process::exit(1);
                }
                None => {
                    println!("{{\"found\": false}}");
                }
            }
        }
        "agents" => {
            let prop = arg(&args, "--prop").unwrap_or("any".into());
            let seed: u64 = arg(&args, "--seed").map_or(0, |s| s.parse().unwrap());
            match agentrun::search_agents(&prop, seed) {
                Some((c, fails)) => {
                    let doc = serde_json::json!({"history": c, "failures": fails});
                    if let Some(out) = arg(&args, "--out") {
                        std::fs::write(out, serde_json::to_string_pretty(&doc).unwrap()).unwrap();
                    }
                    println!("{}", serde_json::to_string_pretty(&doc).unwrap());
                    std::process::exit(1);
                }
                None => println!("{{\"found\": false}}"),
            }
        }
        "simdigest" => {
            let config: usize = arg(&args, "--config").map_or(0, |s| s.parse().unwrap());
            let seed: u64 = arg(&args, "--seed").map_or(0, |s| s.parse().unwrap());
            let progress = arg(&args, "--progress").map_or(false, |s| s == "1");
            let (d, no, nt) = detrun::digest(config, seed, progress);
            println!("{} {} {}", d, no, nt);
        }
        "shuffle-stats" => {
            let seed: u64 = arg(&args, "--seed").map_or(0, |s| s.parse().unwrap());
            let n: usize = arg(&args, "--steps").map_or(30000, |s| s.parse().unwrap());
            let (runs, bad) = shufflerun::shuffle_stats(seed, n);
            println!("{}", serde_json::json!({"seeded_steps_run": runs, "bad": bad}));
            std::process::exit(if bad.is_empty() { 0 } else { 1 });
        }
        "derive-twin" => {
            let seed: u64 = arg(&args, "--seed").map_or(0, |s| s.parse().unwrap());
            let (n, bad) = derivetwin::derive_twin(seed);
            println!("{}", serde_json::json!({"shapes_executed": n, "bad": bad}));
            std::process::exit(if bad.is_empty() { 0 } else { 1 });
        }
        "determinism" => {
            let seed: u64 = arg(&args, "--seed").map_or(0, |s| s.parse().unwrap());
            let (n, bad) = detrun::determinism(seed);
            println!("{}", serde_json::json!({"simulations_run": n, "bad": bad}));
            std::process::exit(if bad.is_empty() { 0 } else { 1 });
        }
        "pytwin" => {
            let text = std::fs::read_to_string(&args[2]).expect("script file");
            let v: serde_json::Value = serde_json::from_str(&text).unwrap();
            println!("{}", serde_json::to_string(&pytwin::run(&v)).unwrap());
        }
        "market-snapshot" => {
            let seed: u64 = arg(&args, "--seed").map_or(0, |s| s.parse().unwrap());
            let (n, bad) = market_snapshot_check(seed, 60);
            println!("{}", serde_json::json!({"snapshots_compared": n, "bad": bad}));
            std::process::exit(if bad.is_empty() { 0 } else { 1 });
        }
        "truncate" => {
            let seed: u64 = arg(&args, "--seed").map_or(0, |s| s.parse().unwrap());
            let (n, bad) = truncate_check(seed);
            println!("{}", serde_json::json!({"prefixes_checked": n, "bad": bad}));
            std::process::exit(if bad.is_empty() { 0 } else { 1 });
        }
        _ => {
            eprintln!("usage: replay run <file> | search --prop Cxx ... | truncate");
            std::process::exit(2);
        }
    }
}
