//! Market-level histories (C12, C13, C14 at the level of `bourse_book::Market`, direct operations): executed on the real `Market<3, 2>`
//! (more assets than levels, so that a mixed-up const generic shows) and compared, asset by asset, with stand-alone `OrderBook<2>`s driven
//! in lock-step with the same operations at the same times.  Never decides: used to turn a refutation into a failing input on the real code.
use crate::model::MSide;
use crate::Failure;
use bourse_book::types::{Event, Order, Side, Trade};
use bourse_book::{Market, OrderBook};
use rand::{Rng, SeedableRng};
use rand_xoshiro::Xoroshiro128StarStar;
use serde::{Deserialize, Serialize};

const A: usize = 3;
const L: usize = 2;

#[derive(Clone, Debug, Serialize, Deserialize, PartialEq)]
#[serde(tag = "op", rename_all = "snake_case")]
pub enum MOp {
    CreatePlace { asset: usize, side: MSide, vol: u32, trader: u32, price: Option<u32> },
    Create { asset: usize, side: MSide, vol: u32, trader: u32, price: Option<u32> },
    Place { asset: usize, id: usize },
    Cancel { asset: usize, id: usize },
    Modify { asset: usize, id: usize, price: Option<u32>, vol: Option<u32> },
    EventModify { asset: usize, id: usize, price: Option<u32>, vol: Option<u32> },
    SetTime { t: u64 },
    Enable,
    Disable,
    /// one book toggled on its own through `get_order_book_mut`
    BookEnable { asset: usize },
    BookDisable { asset: usize },
    ResetTradeVols,
}

#[derive(Clone, Debug, Serialize, Deserialize)]
pub struct MarketHistory {
    pub ticks: Vec<u32>,
    pub trading: bool,
    pub ops: Vec<MOp>,
    #[serde(default)]
    pub note: String,
}

fn sd(s: MSide) -> Side {
    match s {
        MSide::Bid => Side::Bid,
        MSide::Ask => Side::Ask,
    }
}
fn okey(o: &Order) -> (u8, u8, u64, u64, u32, u32, u32, u32, usize) {
    (o.side as u8, u8::from(o.status), o.arr_time, o.end_time, o.vol, o.start_vol, o.price, o.trader_id, o.order_id)
}
fn tkey(t: &Trade) -> (u64, u8, u32, u32, usize, usize) {
    (t.t, t.side as u8, t.price, t.vol, t.active_order_id, t.passive_order_id)
}

pub fn run_market_history(h: &MarketHistory) -> Vec<Failure> {
    let res = std::panic::catch_unwind(std::panic::AssertUnwindSafe(|| run_inner(h)));
    match res {
        Ok(f) => f,
        Err(e) => {
            let msg = e.downcast_ref::<String>().cloned().or_else(|| e.downcast_ref::<&str>().map(|s| s.to_string())).unwrap_or_default();
            vec![Failure { step: 0, op: None, clause: "panic".into(), detail: format!("the real code panicked: {}", msg) }]
        }
    }
}

fn run_inner(h: &MarketHistory) -> Vec<Failure> {
    let mut fails: Vec<Failure> = vec![];
    let mut m: Market<A, L> = Market::new(0, [h.ticks[0], h.ticks[1], h.ticks[2]], h.trading);
    let mut plain: Vec<OrderBook<L>> = (0..A).map(|a| OrderBook::new(0, h.ticks[a], h.trading)).collect();
    let mut toggled = false;
    for (k, op) in h.ops.iter().enumerate() {
        let mut fail = |clause: &str, detail: String| fails.push(Failure { step: k, op: None, clause: clause.into(), detail });
        match op {
            MOp::CreatePlace { asset, side, vol, trader, price } => {
                let a = *asset % A;
                let snap = |m: &Market<A, L>| -> (Vec<(u8, u8, u64, u64, u32, u32, u32, u32, usize)>, usize, (u32, u32), u32, u32) {
                    let b = m.get_order_book(a);
                    (m.get_orders(a).iter().map(|o| okey(o)).collect(), b.get_trades().len(), b.bid_ask(), b.bid_vol(), b.ask_vol())
                };
                let before = snap(&m);
                let r = m.create_and_place_order(a, sd(*side), *vol, *trader, *price);
                if r.is_err() && snap(&m) != before {
                    fail("C12.no_trace", format!("asset {}: a rejected Market::create_and_place_order (price {:?}, tick {}) changed the orders, trades or market data of the asset", a, price, h.ticks[a]));
                }
                let p = plain[a].create_and_place_order(sd(*side), *vol, *trader, *price);
                match (&r, &p) {
                    (Ok(x), Ok(y)) if x.0 == a && x.1 == *y => {}
                    (Err(_), Err(_)) => {}
                    _ => fail("C12.create_iff", format!("asset {}: Market::create_and_place_order gave {:?}, a stand-alone book {:?}", a, r.as_ref().map_err(|_| "Err"), p.as_ref().map_err(|_| "Err"))),
                }
            }
            MOp::Create { asset, side, vol, trader, price } => {
                let a = *asset % A;
                let r = m.create_order(a, sd(*side), *vol, *trader, *price);
                let p = plain[a].create_order(sd(*side), *vol, *trader, *price);
                match (&r, &p) {
                    (Ok(x), Ok(y)) if x.0 == a && x.1 == *y => {}
                    (Err(_), Err(_)) => {}
                    _ => fail("C12.create_iff", format!("asset {}: Market::create_order gave {:?}, a stand-alone book {:?}", a, r.as_ref().map_err(|_| "Err"), p.as_ref().map_err(|_| "Err"))),
                }
            }
            MOp::Place { asset, id } | MOp::Cancel { asset, id } => {
                let a = *asset % A;
                let n = plain[a].get_orders().len();
                if n == 0 || m.get_orders(a).len() != n {
                    continue;
                }
                let id = *id % n;
                if matches!(op, MOp::Place { .. }) {
                    m.place_order((a, id));
                    plain[a].place_order(id);
                } else {
                    m.cancel_order((a, id));
                    plain[a].cancel_order(id);
                }
            }
            MOp::Modify { asset, id, price, vol } | MOp::EventModify { asset, id, price, vol } => {
                let a = *asset % A;
                let n = plain[a].get_orders().len();
                if n == 0 || m.get_orders(a).len() != n {
                    continue;
                }
                let id = *id % n;
                if matches!(op, MOp::Modify { .. }) {
                    m.modify_order((a, id), *price, *vol);
                } else {
                    m.process_event(Event::Modify { order_id: (a, id), new_price: *price, new_vol: *vol });
                }
                plain[a].modify_order(id, *price, *vol);
            }
            MOp::SetTime { t } => {
                m.set_time(*t);
                for b in plain.iter_mut() {
                    b.set_time(*t);
                }
            }
            MOp::Enable => {
                toggled = true;
                m.enable_trading();
                for b in plain.iter_mut() {
                    b.enable_trading();
                }
            }
            MOp::Disable => {
                toggled = true;
                m.disable_trading();
                for b in plain.iter_mut() {
                    b.disable_trading();
                }
            }
            MOp::BookEnable { asset } => {
                toggled = true;
                m.get_order_book_mut(*asset % A).enable_trading();
                plain[*asset % A].enable_trading();
            }
            MOp::BookDisable { asset } => {
                toggled = true;
                m.get_order_book_mut(*asset % A).disable_trading();
                plain[*asset % A].disable_trading();
            }
            MOp::ResetTradeVols => {
                m.reset_trade_vols();
                for b in plain.iter_mut() {
                    b.reset_trade_vol();
                }
            }
        }
        // every asset equals its stand-alone book; every all-asset query returns each asset's own values in asset order
        let cl = |c: &str| -> String { if toggled { format!("C13.{}", c) } else { format!("C14.{}", c) } };
        for a in 0..A {
            let (rb, pb) = (m.get_order_book(a), &plain[a]);
            let ro: Vec<_> = m.get_orders(a).iter().map(|o| okey(o)).collect();
            let po: Vec<_> = pb.get_orders().iter().map(|o| okey(o)).collect();
            let rt: Vec<_> = rb.get_trades().iter().map(tkey).collect();
            let pt: Vec<_> = pb.get_trades().iter().map(tkey).collect();
            if ro != po {
                fail(&cl("asset_orders"), format!("asset {}: orders differ from a stand-alone book fed the same operations", a));
            }
            if rt != pt {
                fail(&cl("asset_trades"), format!("asset {}: trades differ from a stand-alone book fed the same operations ({} vs {})", a, rt.len(), pt.len()));
            }
            if rb.get_time() != pb.get_time() || m.get_time() != pb.get_time() {
                fail("C14.shared_clock", format!("asset {}: clock {} / market {} vs {}", a, rb.get_time(), m.get_time(), pb.get_time()));
            }
            if m.bid_asks()[a] != pb.bid_ask() || m.bid_vols()[a] != pb.bid_vol() || m.ask_vols()[a] != pb.ask_vol() || m.bid_best_vols()[a] != pb.bid_best_vol() || m.ask_best_vols()[a] != pb.ask_best_vol()
                || m.bid_best_vol_and_orders()[a] != pb.bid_best_vol_and_orders() || m.ask_best_vol_and_orders()[a] != pb.ask_best_vol_and_orders()
                || m.bid_levels()[a] != pb.bid_levels() || m.ask_levels()[a] != pb.ask_levels() || m.get_trade_vols()[a] != pb.get_trade_vol()
            {
                fail("C14.all_asset_query", format!("asset {}: an all-asset query does not return this asset's own value", a));
            }
            let (l2, pl2) = (&m.level_2_data()[a], pb.level_2_data());
            if (l2.bid_price, l2.ask_price, l2.bid_vol, l2.ask_vol, l2.bid_price_levels, l2.ask_price_levels) != (pl2.bid_price, pl2.ask_price, pl2.bid_vol, pl2.ask_vol, pl2.bid_price_levels, pl2.ask_price_levels) {
                fail("C14.all_asset_query", format!("asset {}: level_2_data()[{}] is not this asset's level-2 data", a, a));
            }
        }
        if !fails.is_empty() {
            return fails;
        }
    }
    fails
}

fn random_market_history(rng: &mut Xoroshiro128StarStar, len: usize, toggles: bool) -> MarketHistory {
    let ticks = match rng.gen_range(0..4) { 0 => vec![4u32, 3, 8], 1 => vec![10u32, 1, 6], _ => vec![2u32, 1, 5] };
    let mut ops = vec![];
    let mut t = 0u64;
    for _ in 0..len {
        // the clock normally advances; now and then it is restarted at an earlier time (a stand-alone book simply takes the new time, so must every asset)
        if t > 6 && rng.gen_range(0..25) == 0 {
            t -= rng.gen_range(1..6);
        } else {
            t += rng.gen_range(1..3);
        }
        ops.push(MOp::SetTime { t });
        let r = rng.gen_range(0..100);
        let asset = rng.gen_range(0..A);
        let side = if rng.gen_bool(0.5) { MSide::Bid } else { MSide::Ask };
        let tick = ticks[asset];
        let price = match rng.gen_range(0..40) {
            0 => Some(u32::MAX),
            1 => Some(0),
            2 | 9 | 10 => Some((20 + rng.gen_range(0..5)) * tick + 1),
            3..=8 => None,
            _ => Some((20 + rng.gen_range(0..5)) * tick),
        };
        ops.push(if r < 40 {
            MOp::CreatePlace { asset, side, vol: rng.gen_range(1..8), trader: rng.gen_range(0..3), price }
        } else if r < 46 {
            MOp::Create { asset, side, vol: rng.gen_range(1..8), trader: 0, price: Some((20 + rng.gen_range(0..5)) * tick) }
        } else if r < 52 {
            MOp::Place { asset, id: rng.gen_range(0..64) }
        } else if r < 62 {
            MOp::Cancel { asset, id: rng.gen_range(0..64) }
        } else if r < 80 {
            let p = if rng.gen_bool(0.5) { Some((20 + rng.gen_range(0..5)) * tick) } else { None };
            let v = if rng.gen_bool(0.7) { Some(rng.gen_range(1..9)) } else { None };
            if rng.gen_bool(0.5) { MOp::Modify { asset, id: rng.gen_range(0..64), price: p, vol: v } } else { MOp::EventModify { asset, id: rng.gen_range(0..64), price: p, vol: v } }
        } else if r < 83 {
            MOp::ResetTradeVols
        } else if toggles && r < 87 {
            MOp::Disable
        } else if toggles && r < 91 {
            MOp::Enable
        } else if toggles && r < 95 {
            MOp::BookDisable { asset }
        } else if toggles {
            MOp::BookEnable { asset }
        } else {
            MOp::CreatePlace { asset, side, vol: rng.gen_range(1..8), trader: 1, price: Some((20 + rng.gen_range(0..5)) * tick) }
        });
    }
    MarketHistory { ticks, trading: true, ops, note: String::new() }
}

fn matches(f: &Failure, prop: &str) -> bool {
    prop == "any" || f.clause.starts_with(prop) || f.clause == "panic"
}

pub fn search_market(prop: &str, seed: u64, nrandom: usize, budget_s: u64) -> Option<(MarketHistory, Vec<Failure>)> {
    let t0 = std::time::Instant::now();
    let mut rng = Xoroshiro128StarStar::seed_from_u64(seed ^ 0x3a7);
    for k in 0..nrandom {
        if t0.elapsed().as_secs() > budget_s {
            break;
        }
        let toggles = prop == "C13" || (prop != "C14" && k % 2 == 1);
        let mut h = random_market_history(&mut rng, 20 + (k % 4) * 15, toggles);
        let fails = run_market_history(&h);
        if fails.iter().any(|f| matches(f, prop)) {
            // greedy shrink
            let mut changed = true;
            while changed {
                changed = false;
                let mut i = 0;
                while i < h.ops.len() {
                    let mut h2 = h.clone();
                    h2.ops.remove(i);
                    if run_market_history(&h2).iter().any(|f| matches(f, prop)) {
                        h = h2;
                        changed = true;
                    } else {
                        i += 1;
                    }
                }
            }
            let fails = run_market_history(&h);
            return Some((h, fails));
        }
    }
    None
}
