//! Kani harnesses on the real crates of the repository working tree (path dependencies).
//! Loop-free harnesses over full-domain symbolic inputs are complete proofs; harnesses with `unwind` are bounded stand-ins.
#![allow(unused, static_mut_refs)]
#[cfg(kani)]
mod proofs {
    use bourse_de::agents::common::{round_price_down, round_price_up};
    use bourse_de::types::Price;

    fn tick() -> (u32, f64) {
        let t: u32 = kani::any();
        kani::assume(t >= 1 && t <= 10);
        (t, f64::from(t))
    }

    /// C16 (complete): a rounded-down price is on the grid and not above the requested price, for every tick 1..=10 and every
    /// price the book can hold without clamping.
    #[kani::proof]
    fn round_down_grid() {
        let (t, tf) = tick();
        let p: f64 = kani::any();
        kani::assume(p >= 0.0 && p <= 4294967295.0 - 10.0);
        let r = round_price_down(p, tf);
        assert!(r % t == 0);
        assert!(f64::from(r) <= p);
        assert!(p - f64::from(r) < tf + 1.0);
    }

    #[kani::proof]
    fn round_up_grid() {
        let (t, tf) = tick();
        let p: f64 = kani::any();
        kani::assume(p >= 0.0 && p <= 4294967295.0 - 10.0);
        let r = round_price_up(p, tf);
        assert!(r % t == 0);
        // NOT claimed: r >= p.  The quotient p / tick is rounded to nearest, so a request a few ulps above a grid point comes back as that
        // grid point (refuted by CBMC in the build phase, 559 s).  C16 only needs "sell >= observed mid", proved by helper_sell_limit.
        assert!(p - f64::from(r) < 1.0);
        assert!(f64::from(r) - p < tf + 1.0);
    }

    /// C16 known finding: for arbitrary finite requests the clamp to Price::MAX is off the grid unless the tick divides 2^32-1
    #[kani::proof]
    fn round_clamp_on_grid() {
        let (t, tf) = tick();
        let p: f64 = kani::any();
        kani::assume(p.is_finite());
        let r = round_price_up(p, tf);
        assert!(r % t == 0);
    }
    #[kani::proof]
    fn round_down_clamp_on_grid() {
        let (t, tf) = tick();
        let p: f64 = kani::any();
        kani::assume(p.is_finite());
        let r = round_price_down(p, tf);
        assert!(r % t == 0);
    }
}

#[cfg(kani)]
pub mod agents {
    use bourse_de::agents::common;
    use bourse_de::agents::{Agent, MomentumAgent, MomentumParams, NoiseAgent, NoiseAgentParams};
    use bourse_de::types::{OrderId, Price, Side, Status, TraderId, Vol};
    use bourse_de::{Env, OrderError};
    use rand::RngCore;
    use rand_distr::Distribution;

    /// every generator output is covered: each draw is an arbitrary value
    pub struct SymRng;
    impl RngCore for SymRng {
        fn next_u32(&mut self) -> u32 { kani::any() }
        fn next_u64(&mut self) -> u64 { kani::any() }
        fn fill_bytes(&mut self, dest: &mut [u8]) { for b in dest.iter_mut() { *b = kani::any(); } }
        fn try_fill_bytes(&mut self, dest: &mut [u8]) -> Result<(), rand::Error> { self.fill_bytes(dest); Ok(()) }
    }
    /// a price distribution whose sample is an arbitrary finite non-NaN f64 (covers every distribution)
    #[derive(Clone, Copy)]
    pub struct AnyDist;
    impl Distribution<f64> for AnyDist {
        fn sample<R: rand::Rng + ?Sized>(&self, _rng: &mut R) -> f64 { let x: f64 = kani::any(); kani::assume(x.is_finite()); x }
    }

    // ---- recording stubs: the contracts of the callees (Env::place_order: Ok(fresh id), logs the instruction) ----
    #[derive(Clone, Copy)]
    pub struct Rec { pub bid: bool, pub vol: Vol, pub trader: TraderId, pub price: Option<Price> }
    pub static mut LOG: [Option<Rec>; 4] = [None; 4];
    pub static mut N: usize = 0;
    pub static mut CANCELLED: [Option<OrderId>; 4] = [None; 4];
    pub static mut NC: usize = 0;
    pub static mut STATUS: [u8; 2] = [0; 2];
    pub static mut MID: f64 = 0.0;
    pub fn place_stub<const LEVELS: usize>(_e: &mut Env<LEVELS>, side: Side, vol: Vol, trader_id: TraderId, price: Option<Price>) -> Result<OrderId, OrderError> {
        unsafe { if N < 4 { LOG[N] = Some(Rec { bid: matches!(side, Side::Bid), vol, trader: trader_id, price }); } N += 1; Ok(N - 1) }
    }
    pub fn cancel_order_stub<const LEVELS: usize>(_e: &mut Env<LEVELS>, order_id: OrderId) {
        unsafe { if NC < 4 { CANCELLED[NC] = Some(order_id); } NC += 1; }
    }
    pub fn status_stub<const LEVELS: usize>(_e: &Env<LEVELS>, order_id: OrderId) -> Status {
        unsafe { match STATUS[order_id % 2] { 0 => Status::New, 1 => Status::Active, 2 => Status::Filled, 3 => Status::Cancelled, _ => Status::Rejected } }
    }
    pub fn mid_stub<const LEVELS: usize>(_b: &bourse_book::OrderBook<LEVELS>) -> f64 { unsafe { MID } }
    pub fn buy_stub<R: RngCore, D: Distribution<f64>>(env: &mut Env, _rng: &mut R, _d: D, _mid: f64, _tick: f64, vol: Vol, trader: TraderId) -> Result<OrderId, OrderError> {
        env.place_order(Side::Bid, vol, trader, Some(0))
    }
    pub fn sell_stub<R: RngCore, D: Distribution<f64>>(env: &mut Env, _rng: &mut R, _d: D, _mid: f64, _tick: f64, vol: Vol, trader: TraderId) -> Result<OrderId, OrderError> {
        env.place_order(Side::Ask, vol, trader, Some(0))
    }
    pub fn cancel_live_stub<R: RngCore>(_env: &mut Env, _rng: &mut R, _orders: &[OrderId], _p: f32) -> Vec<OrderId> { Vec::new() }
    /// tanh: sign preserving, |y| <= 1, |y| >= 0.99 for |x| >= 3  (assumed model of libm)
    pub fn tanh_model(x: f64) -> f64 {
        let y: f64 = kani::any();
        kani::assume(y >= -1.0 && y <= 1.0);
        kani::assume((x > 0.0) == (y > 0.0));
        kani::assume((x < 0.0) == (y < 0.0));
        kani::assume(!(x >= 3.0) || y >= 0.99);
        kani::assume(!(x <= -3.0) || y <= -0.99);
        y
    }

    /// C16 (complete, loop-free): the limit-order helpers on the real code with every distribution and every generator:
    /// the submitted buy price is on the grid and not above the observed mid; volume and trader are the configured ones.
    #[kani::proof]
    #[kani::stub(bourse_de::Env::place_order, place_stub)]
    fn helper_buy_limit() {
        let mut env: Env = Env::new(0, 1, 1000, true);
        let mut rng = SymRng;
        let t: u32 = kani::any(); kani::assume(t >= 1 && t <= 10);
        let mid2: u32 = kani::any(); kani::assume(mid2 >= 2 && mid2 <= 2_000_000);
        let mid = f64::from(mid2) * 0.5;
        unsafe { N = 0; }
        let r = common::place_buy_limit_order(&mut env, &mut rng, AnyDist, mid, f64::from(t), 7, 3);
        assert!(r.is_ok());
        unsafe {
            assert!(N == 1);
            let rec = LOG[0].unwrap();
            assert!(rec.bid && rec.vol == 7 && rec.trader == 3);
            let p = rec.price.unwrap();
            assert!(p % t == 0);
            assert!(f64::from(p) <= mid);
        }
    }
    #[kani::proof]
    #[kani::stub(bourse_de::Env::place_order, place_stub)]
    fn helper_sell_limit() {
        let mut env: Env = Env::new(0, 1, 1000, true);
        let mut rng = SymRng;
        let t: u32 = kani::any(); kani::assume(t >= 1 && t <= 10);
        let mid2: u32 = kani::any(); kani::assume(mid2 >= 2 && mid2 <= 2_000_000);
        let mid = f64::from(mid2) * 0.5;
        unsafe { N = 0; }
        let r = common::place_sell_limit_order(&mut env, &mut rng, AnyDist, mid, f64::from(t), 7, 3);
        unsafe {
            assert!(N == 1);
            let rec = LOG[0].unwrap();
            assert!(!rec.bid && rec.vol == 7 && rec.trader == 3);
            let p = rec.price.unwrap();
            assert!(f64::from(p) >= mid);
            // on the grid unless the request was clamped to Price::MAX (the recorded known finding)
            assert!(p % t == 0 || p == Price::MAX);
        }
    }
    /// known finding (C16): with an arbitrary finite draw the sell price may be clamped to Price::MAX, which is off the grid
    #[kani::proof]
    #[kani::stub(bourse_de::Env::place_order, place_stub)]
    fn helper_sell_limit_always_on_grid() {
        let mut env: Env = Env::new(0, 1, 1000, true);
        let mut rng = SymRng;
        let t: u32 = kani::any(); kani::assume(t >= 1 && t <= 10);
        unsafe { N = 0; }
        let _ = common::place_sell_limit_order(&mut env, &mut rng, AnyDist, 100.0, f64::from(t), 7, 3);
        unsafe { let p = LOG[0].unwrap().price.unwrap(); assert!(p % t == 0); }
    }

    /// C16 (bounded: two orders; every status, every generator): only Active orders of the given list are cancelled, a probability
    /// of at least 1 cancels every live order, and a probability of 0 cancels none.
    #[kani::proof]
    #[kani::unwind(12)]
    #[kani::stub(bourse_de::Env::order_status, status_stub)]
    #[kani::stub(bourse_de::Env::cancel_order, cancel_order_stub)]
    fn cancel_live_orders_rules() {
        let mut env: Env = Env::new(0, 1, 1000, true);
        let mut rng = SymRng;
        let s0: u8 = kani::any(); let s1: u8 = kani::any();
        kani::assume(s0 <= 4 && s1 <= 4);
        unsafe { STATUS = [s0, s1]; NC = 0; }
        let p: f32 = kani::any();
        kani::assume(p == 0.0 || p >= 1.0);
        let orders: [OrderId; 2] = [0, 1];
        let live = common::cancel_live_orders(&mut env, &mut rng, &orders, p);
        let n_active = (s0 == 1) as usize + (s1 == 1) as usize;
        unsafe {
            // cancellations only of listed orders that were Active when looked at
            if NC >= 1 { let c = CANCELLED[0].unwrap(); assert!(c < 2 && STATUS[c] == 1); }
            if NC >= 2 { let c = CANCELLED[1].unwrap(); assert!(c < 2 && STATUS[c] == 1 && CANCELLED[0] != CANCELLED[1]); }
            assert!(NC + live.len() == n_active);
            if p >= 1.0 { assert!(NC == n_active); }
            if p == 0.0 { assert!(NC == 0); }          // [C16.zero_probability_never]
        }
    }

    /// C16 (bounded: one trader, one call): activity follows the documented probabilities 0 / >= 1; configured volume; own trader id
    #[kani::proof]
    #[kani::unwind(12)]
    #[kani::stub(bourse_de::Env::place_order, place_stub)]
    #[kani::stub(bourse_book::OrderBook::mid_price, mid_stub)]
    #[kani::stub(bourse_de::agents::common::place_buy_limit_order, buy_stub)]
    #[kani::stub(bourse_de::agents::common::place_sell_limit_order, sell_stub)]
    #[kani::stub(bourse_de::agents::common::cancel_live_orders, cancel_live_stub)]
    fn noise_update_rules() {
        let mut env: Env = Env::new(0, 1, 1000, true);
        let mut rng = SymRng;
        let pl: f32 = kani::any(); let pm: f32 = kani::any();
        kani::assume(pl == 0.0 || pl >= 1.0);
        kani::assume(pm == 0.0 || pm >= 1.0);
        let params = NoiseAgentParams { tick_size: 1, p_limit: pl, p_market: pm, p_cancel: 0.0, trade_vol: 10, price_dist_mu: 0.0, price_dist_sigma: 1.0 };
        let mut a = NoiseAgent::new(5, 1, params);
        unsafe { MID = 100.0; N = 0; }
        a.update(&mut env, &mut rng);
        unsafe {
            let want = (if pl >= 1.0 { 1 } else { 0 }) + (if pm >= 1.0 { 1 } else { 0 });
            assert!(N == want);
            if N >= 1 { let r = LOG[0].unwrap(); assert!(r.vol == 10 && r.trader == 5); }
            if N == 2 { let r = LOG[1].unwrap(); assert!(r.vol == 10 && r.trader == 5 && r.price.is_none()); }
            if pl == 0.0 && N == 1 { assert!(LOG[0].unwrap().price.is_none()); }
        }
    }

    pub fn momentum_agent(order_ratio: f64) -> MomentumAgent {
        let params = MomentumParams { tick_size: 1, p_cancel: 0.0, trade_vol: 10, decay: 1.0, demand: 5.0, scale: 0.5, order_ratio, price_dist_mu: 0.0, price_dist_sigma: 1.0 };
        MomentumAgent::new(5, 1, params)
    }

    /// C17 (bounded: one trader, two calls, decay 1, saturated demand): a falling mid-price makes the trader SELL exactly once
    #[kani::proof]
    #[kani::unwind(12)]
    #[kani::stub(f64::tanh, tanh_model)]
    #[kani::stub(bourse_de::Env::place_order, place_stub)]
    #[kani::stub(bourse_book::OrderBook::mid_price, mid_stub)]
    #[kani::stub(bourse_de::agents::common::place_buy_limit_order, buy_stub)]
    #[kani::stub(bourse_de::agents::common::place_sell_limit_order, sell_stub)]
    #[kani::stub(bourse_de::agents::common::cancel_live_orders, cancel_live_stub)]
    fn momentum_falling_sells() {
        let mut env: Env = Env::new(0, 1, 1000, true);
        let mut rng = SymRng;
        let mut a = momentum_agent(0.0);
        let drop: u32 = kani::any(); kani::assume(drop >= 6 && drop <= 1000);      // scale * M <= -3: saturated
        unsafe { MID = 2000.0; N = 0; }
        a.update(&mut env, &mut rng);
        unsafe { assert!(N == 0); MID = 2000.0 - f64::from(drop); }                 // first call: no signal yet
        a.update(&mut env, &mut rng);
        unsafe {
            assert!(N == 1);                                                        // [C17.sells_when_falling]
            if N == 1 { let r = LOG[0].unwrap(); assert!(!r.bid && r.vol == 10 && r.trader == 5 && r.price.is_none()); }
        }
    }
    /// C17: a rising mid-price makes the trader BUY exactly once; with order ratio >= 1 also one buy limit order
    #[kani::proof]
    #[kani::unwind(12)]
    #[kani::stub(f64::tanh, tanh_model)]
    #[kani::stub(bourse_de::Env::place_order, place_stub)]
    #[kani::stub(bourse_book::OrderBook::mid_price, mid_stub)]
    #[kani::stub(bourse_de::agents::common::place_buy_limit_order, buy_stub)]
    #[kani::stub(bourse_de::agents::common::place_sell_limit_order, sell_stub)]
    #[kani::stub(bourse_de::agents::common::cancel_live_orders, cancel_live_stub)]
    fn momentum_rising_buys() {
        let mut env: Env = Env::new(0, 1, 1000, true);
        let mut rng = SymRng;
        let with_limit: bool = kani::any();
        let mut a = momentum_agent(if with_limit { 1.5 } else { 0.0 });
        let rise: u32 = kani::any(); kani::assume(rise >= 6 && rise <= 1000);
        unsafe { MID = 2000.0; N = 0; }
        a.update(&mut env, &mut rng);
        unsafe { assert!(N == 0); MID = 2000.0 + f64::from(rise); }
        a.update(&mut env, &mut rng);
        unsafe {
            assert!(N == if with_limit { 2 } else { 1 });
            let last = LOG[N - 1].unwrap();
            assert!(last.bid && last.vol == 10 && last.trader == 5 && last.price.is_none());
            if with_limit { let l = LOG[0].unwrap(); assert!(l.bid && l.price.is_some()); }
        }
    }
    /// C17: an unchanged mid-price (M == 0) submits nothing
    #[kani::proof]
    #[kani::unwind(12)]
    #[kani::stub(f64::tanh, tanh_model)]
    #[kani::stub(bourse_de::Env::place_order, place_stub)]
    #[kani::stub(bourse_book::OrderBook::mid_price, mid_stub)]
    #[kani::stub(bourse_de::agents::common::place_buy_limit_order, buy_stub)]
    #[kani::stub(bourse_de::agents::common::place_sell_limit_order, sell_stub)]
    #[kani::stub(bourse_de::agents::common::cancel_live_orders, cancel_live_stub)]
    fn momentum_flat_nothing() {
        let mut env: Env = Env::new(0, 1, 1000, true);
        let mut rng = SymRng;
        let mut a = momentum_agent(1.5);
        unsafe { MID = 2000.0; N = 0; }
        a.update(&mut env, &mut rng);
        a.update(&mut env, &mut rng);
        unsafe { assert!(N == 0); }
    }
}

#[cfg(kani)]
mod book {
    use bourse_book::types::Price;
    use bourse_book::OrderBook;
    static mut BA: (Price, Price) = (0, 0);
    fn bid_ask_stub<const LEVELS: usize>(_b: &OrderBook<LEVELS>) -> (Price, Price) { unsafe { BA } }
    /// C02 (complete): for every pair of touch prices - crossed ones included - mid_price neither panics nor deviates from (bid+ask)/2.
    /// bid_ask is replaced by its Verus-proved contract (it returns the touch prices; here: any pair).
    #[kani::proof]
    #[kani::stub(bourse_book::OrderBook::bid_ask, bid_ask_stub)]
    fn mid_price_exact() {
        let book: OrderBook<2> = OrderBook::new(0, 1, true);
        let b: Price = kani::any(); let a: Price = kani::any();
        unsafe { BA = (b, a); }
        let m = book.mid_price();
        assert!(m == (f64::from(b) + f64::from(a)) / 2.0);
        assert!(m >= 0.0 && m <= 4294967295.0);
    }
}

#[cfg(kani)]
mod market_agents {
    use super::agents::{tanh_model, AnyDist, Rec, SymRng, LOG, MID, N as CNT};
    use bourse_book::types::{AssetIdx, MarketOrderId};
    use bourse_de::agents::common;
    use bourse_de::agents::{MarketAgent, MomentumMarketAgent, MomentumParams, NoiseAgentParams, NoiseMarketAgent};
    use bourse_de::types::{OrderId, Price, Side, Status, TraderId, Vol};
    use bourse_de::{MarketEnv, OrderError};
    use rand::RngCore;
    use rand_distr::Distribution;

    pub static mut ASSET: usize = 99;
    pub fn mplace_stub<const ASSETS: usize, const LEVELS: usize>(_e: &mut MarketEnv<ASSETS, LEVELS>, asset: AssetIdx, side: Side, vol: Vol, trader_id: TraderId, price: Option<Price>) -> Result<MarketOrderId, OrderError> {
        unsafe { ASSET = asset; if CNT < 4 { LOG[CNT] = Some(Rec { bid: matches!(side, Side::Bid), vol, trader: trader_id, price }); } CNT += 1; Ok((asset, CNT - 1)) }
    }
    pub fn mid_stub<const LEVELS: usize>(_b: &bourse_book::OrderBook<LEVELS>) -> f64 { unsafe { MID } }
    pub fn mbuy_stub<R: RngCore, D: Distribution<f64>, const M: usize, const N: usize>(env: &mut MarketEnv<M, N>, _rng: &mut R, _d: D, _mid: f64, _tick: f64, vol: Vol, asset: AssetIdx, trader: TraderId) -> Result<MarketOrderId, OrderError> {
        env.place_order(asset, Side::Bid, vol, trader, Some(0))
    }
    pub fn msell_stub<R: RngCore, D: Distribution<f64>, const M: usize, const N: usize>(env: &mut MarketEnv<M, N>, _rng: &mut R, _d: D, _mid: f64, _tick: f64, vol: Vol, asset: AssetIdx, trader: TraderId) -> Result<MarketOrderId, OrderError> {
        env.place_order(asset, Side::Ask, vol, trader, Some(0))
    }
    pub fn mcancel_live_stub<R: RngCore, const M: usize, const N: usize>(_env: &mut MarketEnv<M, N>, _rng: &mut R, _orders: &[MarketOrderId], _p: f32) -> Vec<MarketOrderId> { Vec::new() }

    /// C16 (complete): the multi-asset limit-order helpers: buy on grid and <= mid, sell >= mid and on grid unless clamped, right asset
    #[kani::proof]
    #[kani::stub(bourse_de::MarketEnv::place_order, mplace_stub)]
    fn helper_buy_limit_market() {
        let mut env: MarketEnv<1, 2> = MarketEnv::new(0, [1], 1000, true);
        let mut rng = SymRng;
        let t: u32 = kani::any(); kani::assume(t >= 1 && t <= 10);
        let mid2: u32 = kani::any(); kani::assume(mid2 >= 2 && mid2 <= 2_000_000);
        let mid = f64::from(mid2) * 0.5;
        unsafe { CNT = 0; }
        let r = common::place_buy_limit_order_market(&mut env, &mut rng, AnyDist, mid, f64::from(t), 7, 0, 3);
        assert!(r.is_ok());
        unsafe {
            assert!(CNT == 1 && ASSET == 0);
            let rec = LOG[0].unwrap();
            assert!(rec.bid && rec.vol == 7 && rec.trader == 3);
            let p = rec.price.unwrap();
            assert!(p % t == 0);
            assert!(f64::from(p) <= mid);
        }
    }
    #[kani::proof]
    #[kani::stub(bourse_de::MarketEnv::place_order, mplace_stub)]
    fn helper_sell_limit_market() {
        let mut env: MarketEnv<1, 2> = MarketEnv::new(0, [1], 1000, true);
        let mut rng = SymRng;
        let t: u32 = kani::any(); kani::assume(t >= 1 && t <= 10);
        let mid2: u32 = kani::any(); kani::assume(mid2 >= 2 && mid2 <= 2_000_000);
        let mid = f64::from(mid2) * 0.5;
        unsafe { CNT = 0; }
        let _ = common::place_sell_limit_order_market(&mut env, &mut rng, AnyDist, mid, f64::from(t), 7, 0, 3);
        unsafe {
            assert!(CNT == 1 && ASSET == 0);
            let rec = LOG[0].unwrap();
            assert!(!rec.bid && rec.vol == 7 && rec.trader == 3);
            let p = rec.price.unwrap();
            assert!(f64::from(p) >= mid);
            assert!(p % t == 0 || p == Price::MAX);
        }
    }

    fn magent(order_ratio: f64, decay: f64) -> MomentumMarketAgent {
        let params = MomentumParams { tick_size: 1, p_cancel: 0.0, trade_vol: 10, decay, demand: 5.0, scale: 0.5, order_ratio, price_dist_mu: 0.0, price_dist_sigma: 1.0 };
        MomentumMarketAgent::new(5, 1, 0, params)
    }
    /// C17 (bounded): the multi-asset momentum agent sells once when the observed mid falls and buys once when it rises
    #[kani::proof]
    #[kani::unwind(12)]
    #[kani::stub(f64::tanh, tanh_model)]
    #[kani::stub(bourse_de::MarketEnv::place_order, mplace_stub)]
    #[kani::stub(bourse_book::OrderBook::mid_price, mid_stub)]
    #[kani::stub(bourse_de::agents::common::place_buy_limit_order_market, mbuy_stub)]
    #[kani::stub(bourse_de::agents::common::place_sell_limit_order_market, msell_stub)]
    #[kani::stub(bourse_de::agents::common::cancel_live_orders_market, mcancel_live_stub)]
    fn momentum_market_direction() {
        let mut env: MarketEnv<1, 2> = MarketEnv::new(0, [1], 1000, true);
        let mut rng = SymRng;
        let mut a = magent(0.0, 1.0);
        let up: bool = kani::any();
        let half: bool = kani::any();                                                // half-tick mids occur with an odd spread
        let d: u32 = kani::any(); kani::assume(d >= 6 && d <= 1000);
        let base = if half { 2000.5 } else { 2000.0 };
        unsafe { MID = base; CNT = 0; }
        a.update(&mut env, &mut rng);
        unsafe { assert!(CNT == 0); MID = if up { base + f64::from(d) } else { base - f64::from(d) }; }
        a.update(&mut env, &mut rng);
        unsafe {
            assert!(CNT == 1);
            if CNT == 1 { let r = LOG[0].unwrap(); assert!(r.bid == up && r.vol == 10 && r.trader == 5 && r.price.is_none()); }
        }
    }
    /// C17 (bounded): the multi-asset agent carries M over by the documented recursion: with decay 1/2 a pull-back that leaves M > 0 still BUYS
    #[kani::proof]
    #[kani::unwind(12)]
    #[kani::stub(f64::tanh, tanh_model)]
    #[kani::stub(bourse_de::MarketEnv::place_order, mplace_stub)]
    #[kani::stub(bourse_book::OrderBook::mid_price, mid_stub)]
    #[kani::stub(bourse_de::agents::common::place_buy_limit_order_market, mbuy_stub)]
    #[kani::stub(bourse_de::agents::common::place_sell_limit_order_market, msell_stub)]
    #[kani::stub(bourse_de::agents::common::cancel_live_orders_market, mcancel_live_stub)]
    fn momentum_market_carried_over() {
        let mut env: MarketEnv<1, 2> = MarketEnv::new(0, [1], 1000, true);
        let mut rng = SymRng;
        let mut a = magent(0.0, 0.5);
        let up: bool = kani::any();
        unsafe { MID = 2000.0; CNT = 0; }
        a.update(&mut env, &mut rng);
        unsafe { MID = if up { 2032.0 } else { 1968.0 }; }
        a.update(&mut env, &mut rng);                       // M = +-16
        unsafe { assert!(CNT == 1); CNT = 0; MID = if up { 2028.0 } else { 1972.0 }; }
        a.update(&mut env, &mut rng);                       // price moves 4 against the trend: M = +-8 -+ 2 = +-6, same sign, saturated
        unsafe {
            assert!(CNT == 1);
            if CNT == 1 { let r = LOG[0].unwrap(); assert!(r.bid == up && r.price.is_none()); }
        }
    }
    /// C16 (bounded): NoiseMarketAgent activity follows the documented probabilities, configured volume, own trader id, own asset
    #[kani::proof]
    #[kani::unwind(12)]
    #[kani::stub(bourse_de::MarketEnv::place_order, mplace_stub)]
    #[kani::stub(bourse_book::OrderBook::mid_price, mid_stub)]
    #[kani::stub(bourse_de::agents::common::place_buy_limit_order_market, mbuy_stub)]
    #[kani::stub(bourse_de::agents::common::place_sell_limit_order_market, msell_stub)]
    #[kani::stub(bourse_de::agents::common::cancel_live_orders_market, mcancel_live_stub)]
    fn noise_market_update_rules() {
        let mut env: MarketEnv<1, 2> = MarketEnv::new(0, [1], 1000, true);
        let mut rng = SymRng;
        let pl: f32 = kani::any(); let pm: f32 = kani::any();
        kani::assume(pl == 0.0 || pl >= 1.0);
        kani::assume(pm == 0.0 || pm >= 1.0);
        let params = NoiseAgentParams { tick_size: 1, p_limit: pl, p_market: pm, p_cancel: 0.0, trade_vol: 10, price_dist_mu: 0.0, price_dist_sigma: 1.0 };
        let mut a = NoiseMarketAgent::new(0, 5, 1, params);
        unsafe { MID = 100.0; CNT = 0; }
        a.update(&mut env, &mut rng);
        unsafe {
            let want = (if pl >= 1.0 { 1 } else { 0 }) + (if pm >= 1.0 { 1 } else { 0 });
            assert!(CNT == want);
            if CNT >= 1 { let r = LOG[0].unwrap(); assert!(r.vol == 10 && r.trader == 5 && ASSET == 0); }
            if CNT == 2 { let r = LOG[1].unwrap(); assert!(r.vol == 10 && r.trader == 5 && r.price.is_none()); }
        }
    }
}

#[cfg(kani)]
mod momentum_memory {
    use super::agents::{buy_stub, cancel_live_stub, mid_stub, place_stub, sell_stub, tanh_model, SymRng, LOG, MID, N};
    use bourse_de::agents::{Agent, MomentumAgent, MomentumParams};
    use bourse_de::Env;
    fn agent(decay: f64) -> MomentumAgent {
        let params = MomentumParams { tick_size: 1, p_cancel: 0.0, trade_vol: 10, decay, demand: 5.0, scale: 0.5, order_ratio: 0.0, price_dist_mu: 0.0, price_dist_sigma: 1.0 };
        MomentumAgent::new(5, 1, params)
    }
    /// C17 (bounded): M = m(1-decay) + decay(P-p) is carried from step to step: with decay 1/2 a move followed by a flat step still trades
    #[kani::proof]
    #[kani::unwind(12)]
    #[kani::stub(f64::tanh, tanh_model)]
    #[kani::stub(bourse_de::Env::place_order, place_stub)]
    #[kani::stub(bourse_book::OrderBook::mid_price, mid_stub)]
    #[kani::stub(bourse_de::agents::common::place_buy_limit_order, buy_stub)]
    #[kani::stub(bourse_de::agents::common::place_sell_limit_order, sell_stub)]
    #[kani::stub(bourse_de::agents::common::cancel_live_orders, cancel_live_stub)]
    fn momentum_carried_over() {
        let mut env: Env = Env::new(0, 1, 1000, true);
        let mut rng = SymRng;
        let mut a = agent(0.5);
        let up: bool = kani::any();
        unsafe { MID = 2000.0; N = 0; }
        a.update(&mut env, &mut rng);                       // no signal yet
        unsafe { MID = if up { 2032.0 } else { 1968.0 }; }
        a.update(&mut env, &mut rng);                       // M = +-16: scale*M = +-8, saturated
        unsafe { assert!(N == 1); N = 0; }
        a.update(&mut env, &mut rng);                       // flat step: M = +-8: scale*M = +-4, still saturated
        unsafe {
            assert!(N == 1);                                // [C17.recursion]
            if N == 1 { let r = LOG[0].unwrap(); assert!(r.bid == up && r.price.is_none()); }
        }
    }
    /// C17 (bounded): when the signal returns to exactly zero the memory is reset too: the following flat step submits nothing
    #[kani::proof]
    #[kani::unwind(12)]
    #[kani::stub(f64::tanh, tanh_model)]
    #[kani::stub(bourse_de::Env::place_order, place_stub)]
    #[kani::stub(bourse_book::OrderBook::mid_price, mid_stub)]
    #[kani::stub(bourse_de::agents::common::place_buy_limit_order, buy_stub)]
    #[kani::stub(bourse_de::agents::common::place_sell_limit_order, sell_stub)]
    #[kani::stub(bourse_de::agents::common::cancel_live_orders, cancel_live_stub)]
    fn momentum_zero_signal_resets() {
        let mut env: Env = Env::new(0, 1, 1000, true);
        let mut rng = SymRng;
        let mut a = agent(0.5);
        unsafe { MID = 2000.0; N = 0; }
        a.update(&mut env, &mut rng);
        unsafe { MID = 2010.0; }
        a.update(&mut env, &mut rng);                       // M = 5
        unsafe { MID = 2005.0; N = 0; }
        a.update(&mut env, &mut rng);                       // M = 2.5 + 0.5 * (-5) = 0
        unsafe { assert!(N == 0); }
        a.update(&mut env, &mut rng);                       // flat: M = 0
        unsafe { assert!(N == 0); }                         // [C17.flat]
    }
}

/// Numeric lemmas behind the activity rules (C16 / C17): each is a loop-free, full-domain harness (a complete proof).  The Verus unit `agents` uses them as
/// the axioms of the same names (contracts/agents.vc): a unit draw lies in [0, 1) for EVERY generator output, and a value below 1 is below every threshold >= 1.
#[cfg(kani)]
mod float_lemmas {
    use super::agents::SymRng;
    use rand::Rng;

    #[kani::proof]
    fn unit_draw_f64() {
        let mut r = SymRng;
        let x: f64 = r.gen();
        assert!(x >= 0.0);
        assert!(!(x < 0.0));
        assert!(x < 1.0);
    }
    #[kani::proof]
    fn unit_draw_f32() {
        let mut r = SymRng;
        let x: f32 = r.gen();
        assert!(x >= 0.0);
        assert!(!(x < 0.0));
        assert!(x < 1.0);
    }
    #[kani::proof]
    fn below_one_below_threshold_f64() {
        let u: f64 = kani::any();
        let p: f64 = kani::any();
        if u < 1.0 && 1.0 <= p {
            assert!(u < p);
            assert!(!(u >= p));
        }
    }
    #[kani::proof]
    fn below_one_below_threshold_f32() {
        let u: f32 = kani::any();
        let p: f32 = kani::any();
        if u < 1.0 && 1.0 <= p {
            assert!(u < p);
            assert!(!(u >= p));
        }
    }
}
