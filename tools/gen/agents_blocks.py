#!/usr/bin/env python3
"""Writes the helper and `update` contract blocks of contracts/agents.vc (four near-identical variants: noise / momentum x single / multi-asset)
between the markers `//@ # BEGIN generated blocks` and `//@ # END generated blocks`.  The output is committed; this script only saves typing."""
import re, sys, os

QUOTE = {'buy_quote': 'rpd(mid_price.sub_spec(f64_abs(d)), TICK)', 'sell_quote': 'rpu(mid_price.add_spec(f64_abs(d)), TICK)'}
QUOTE_T = {'buy_quote': 'rpd(mid_price.sub_spec(#[trigger] f64_abs(d)), TICK)', 'sell_quote': 'rpu(mid_price.add_spec(#[trigger] f64_abs(d)), TICK)'}

def V(multi):
    if multi:
        return dict(OV='only_valid_m', ST='lemma_only_valid_m_step', SM='lemma_only_valid_m_same', SUB='submitted_m', NS='new_side_m', NSS='lemma_new_side_m_step', A='self.asset, ', AO='old(self).asset, ',
                    ORD=lambda e: '%s.market.order_books@[self.asset as int].orders@' % e, ORDO=lambda e: '%s.market.order_books@[old(self).asset as int].orders@' % e,
                    MID='old(env).market.order_books@[self.asset as int].mid_spec()', MIDO='old(env).market.order_books@[old(self).asset as int].mid_spec()',
                    REQ='old(env).wf(), old(self).params.trade_vol >= 1, old(self).asset < M, own_known_m(old(self).orders@, *old(env)),', OK='own_known_m', KEEP=' && final(self).asset == old(self).asset', INV=' self.asset < M,', SFX='_market', MK='`Side::%s,` #1')
    return dict(OV='only_valid', ST='lemma_only_valid_step', SM='lemma_only_valid_same', SUB='submitted', NS='new_side', NSS='lemma_new_side_step', A='', AO='',
                ORD=lambda e: '%s.order_book.orders@' % e, ORDO=lambda e: '%s.order_book.orders@' % e,
                MID='old(env).order_book.mid_spec()', MIDO='old(env).order_book.mid_spec()',
                REQ='old(env).wf(), old(self).params.trade_vol >= 1, own_known(old(self).orders@, *old(env)),', OK='own_known', KEEP='', INV='', SFX='', MK='`env.place_order(Side::%s` #1')

def ov(v, e, old=False):
    if old:
        return '%s(*old(env), %s, %sold(self).params.trade_vol, old(self).trader_ids@, old(self).orders@, %s, old(self).tick_size)' % (v['OV'], e, v['AO'], v['MIDO'])
    return '%s(*old(env), %s, %sself.params.trade_vol, self.trader_ids@, self.orders@, %s, self.tick_size)' % (v['OV'], e, v['A'], v['MID'])

def step(v, e1, sd, price, ind):
    a = '%s(*old(env), %s, *env, %sself.params.trade_vol, self.trader_ids@, self.orders@, %s, *trader_id, %s, %s, self.tick_size);' % (v['ST'], e1, v['A'], sd, price, v['MID'])
    return ind + a

def same(v, e1, ind):
    return ind + '%s(*old(env), %s, *env, %sself.params.trade_vol, self.trader_ids@, self.orders@, %s, self.tick_size);' % (v['SM'], e1, v['A'], v['MID'])

def sub(v, e1, sd, price):
    return '%s(%s, *env, %s%s, self.params.trade_vol, *trader_id, %s)' % (v['SUB'], e1, v['A'], sd, price)

def limit_hint(v, e1, sd, quote, ind, momentum):
    """after a helper call on side sd (a Side expression): either nothing changed (Err: the recorded clamp finding) or one order with the documented quote was submitted"""
    q = 'Some(%s)' % QUOTE[quote].replace('TICK', 'self.tick_size')
    qt = 'Some(%s)' % QUOTE_T[quote].replace('TICK', 'self.tick_size')
    out = [ind + 'if %s.len() == %s.len() {' % (v['ORD']('env'), v['ORD'](e1)),
           ind + '    // the helper returned Err (its verified contract: Ok <=> exactly one order appended): `.unwrap()` does not return, the simulation has aborted.  vstd states',
           ind + '    // this as a precondition of unwrap only - that obligation IS generated and is the recorded known finding; the statements after the call are not reached.',
           ind + '    assume(false);',
           ind + '} else {',
           ind + '    let d = choose|d: f64| %s;' % sub(v, e1, sd, qt),
           step(v, e1, sd, q, ind + '    ')]
    if momentum:
        out.append(ind + '    %s(*old(env), %s, *env, %s%s, self.params.trade_vol, *trader_id, %s);' % (v['NSS'], e1, v['A'], sd, q))
    out.append(ind + '}')
    return out

def market_hint(v, e, sd, ind, momentum):
    out = [ind + 'assert(%s);' % sub(v, e, sd, 'None'), step(v, e, sd, 'None', ind)]
    if momentum:
        out.append(ind + '%s(*old(env), %s, *env, %s%s, self.params.trade_vol, *trader_id, None);' % (v['NSS'], e, v['A'], sd))
    return out

def push_hint(v, k, ind):
    idx = '(order_id.0 == self.asset && order_id.1 < %s.len())' % v['ORD']('env') if v['OK'].endswith('_m') else '(order_id < %s.len())' % v['ORD']('env')
    return ['//@ at before `live_orders.push(order_id)` #%d' % k, ind + 'let ghost lo1 = live_orders@;' if k == 1 else ind + 'let ghost lo2 = live_orders@;',
            '//@ at after `live_orders.push(order_id)` #%d' % k,
            ind + 'proof {',
            ind + '    assert(%s);' % idx,
            ind + '    assert(live_orders@ == lo%d.push(order_id));' % k,
            ind + '    assert(%s(live_orders@, *env));' % v['OK'],
            ind + '}']

def NLO(o):
    return 'noise_lo(%s.params.p_limit, %s.params.p_market)' % (o, o)

def NHI(o):
    return 'noise_hi(%s.params.p_limit, %s.params.p_market)' % (o, o)

def MSPEC(v):
    m = 'mom_next(old(self).momentum, old(self).last_price, old(self).params.decay, %s)' % v['MIDO']
    pm = 'mom_prob(%s, old(self).last_price, old(self).params.demand, old(self).params.scale, old(self).n)' % m
    pl = 'old(self).params.order_ratio.mul_spec(%s)' % pm
    return m, pl, pm

def MLO(v, old):
    return 'mom_lo(%s, %s, %s)' % MSPEC(v)

def MHI(v, old):
    return 'mom_hi(%s, %s, %s)' % MSPEC(v)

def noise(multi):
    v = V(multi)
    name = 'NoiseMarketAgent' if multi else 'NoiseAgent'
    L = []
    L += ['//@ fn %s::update [C16]' % name, '//@ sig',
          '        requires ' + v['REQ'],
          '        ensures',
          '            %s,                    // [C16.only_valid_instructions]' % ov(v, '*final(env)', True),
          '            final(self).trader_ids@ == old(self).trader_ids@ && final(self).params == old(self).params%s && final(self).tick_size == old(self).tick_size,' % v['KEEP'],
          '            %s.len() <= %s.len() + 2 * old(self).trader_ids@.len(),                 // [C16.once_per_trader]' % (v['ORDO']('final(env)'), v['ORDO']('old(env)')),
          '            %s(final(self).orders@, *final(env)),                                                         // [C16.own_orders_known]' % v['OK'],
          '            // activity rules: per trader, in processing order, at least one order per action whose probability is >= 1 and none for an action whose probability is 0',
          '            exists|cut: Seq<int>| #[trigger] by_trader(%s, %s, old(self).trader_ids@, cut, %s, %s, old(self).trader_ids@.len() as int),   // [C16.activity]' % (v['ORDO']('old(env)'), v['ORDO']('final(env)'), NLO('old(self)'), NHI('old(self)')),
          '//@ at entry',
          '        broadcast use axiom_f64_add_total, axiom_f64_sub_total, axiom_f64_mul_total, axiom_f64_div_total;',
          '        let ghost mut cut: Seq<int> = Seq::empty();',
          '//@ at before_loop 0',
          '        proof {',
          '            assert(mid_price == %s);' % v['MID'],
          '            assert(%s);' % ov(v, '*env'),
          '            cut = seq![%s.len() as int];' % v['ORD']('env'),
          '            lemma_by_trader_init(%s, self.trader_ids@, %s, %s);' % (v['ORD']('env'), NLO('self'), NHI('self')),
          '        }',
          '//@ loop 0 iter it',
          '            invariant',
          '                env.wf(), %s,%s' % (ov(v, '*env'), v['INV']),
          '                *self == *old(self), it.seq().len() == self.trader_ids@.len(), mid_price == %s,' % v['MID'],
          '                forall|j: int| 0 <= j < it.seq().len() ==> *it.seq()[j] == self.trader_ids@[j],',
          '                %s.len() <= %s.len() + 2 * it.index@, %s(live_orders@, *env),' % (v['ORD']('env'), v['ORD']('old(env)'), v['OK']),
          '                by_trader(%s, %s, self.trader_ids@, cut, %s, %s, it.index@ as int),' % (v['ORD']('old(env)'), v['ORD']('env'), NLO('self'), NHI('self')),
          '//@ at loop_body_start 0',
          '            broadcast use unit_draw_f32, below_one_below_threshold_f32;',
          '            let ghost os_i = %s;' % v['ORD']('env'),
          '            proof { assert(self.trader_ids@.contains(*trader_id)); axiom_f32_deterministic(); }',
          '//@ at loop_body_end 0',
          '            proof {',
          '                assert forall|j: int| 0 <= j < os_i.len() implies %s[j] == os_i[j] by { }' % v['ORD']('env'),
          '                lemma_by_trader_step(%s, os_i, %s, self.trader_ids@, cut, %s, %s, it.index@ as int);' % (v['ORD']('old(env)'), v['ORD']('env'), NLO('self'), NHI('self')),
          '                cut = cut.push(%s.len() as int);' % v['ORD']('env'),
          '            }',
          '//@ at before `place_buy_limit_order%s(` #1' % v['SFX'],
          '                let ghost e1 = *env;',
          '//@ at after `place_buy_limit_order%s(` #1' % v['SFX'],
          '                proof {',
          '                    // the helper either submitted one order or (clamped, off-grid price: the recorded known finding) returned Err and changed nothing',
          '                    if side {']
    L += limit_hint(v, 'e1', 'Side::Bid', 'buy_quote', ' ' * 24, False)
    L += ['                    } else {']
    L += limit_hint(v, 'e1', 'Side::Ask', 'sell_quote', ' ' * 24, False)
    L += ['                    }', '                }']
    L += push_hint(v, 1, ' ' * 16)
    L += ['//@ at before ' + v['MK'] % 'Bid',
          '                let ghost e2 = *env;',
          '//@ at after ' + v['MK'] % 'Bid',
          '                proof {',
          '                    if side {']
    L += market_hint(v, 'e2', 'Side::Bid', ' ' * 24, False)
    L += ['                    } else {']
    L += market_hint(v, 'e2', 'Side::Ask', ' ' * 24, False)
    L += ['                    }', '                }']
    return L

def momentum(multi):
    v = V(multi)
    name = 'MomentumMarketAgent' if multi else 'MomentumAgent'
    fin = lambda e: v['ORDO'](e)
    L = ['//@ fn %s::update [C16 C17]' % name, '//@ body-tags C16', '//@ sig',
         '        requires ' + v['REQ'],
         '        ensures',
         '            %s,                    // [C16.only_valid_instructions]' % ov(v, '*final(env)', True),
         '            final(self).trader_ids@ == old(self).trader_ids@ && final(self).params == old(self).params%s,' % v['KEEP'],
         '            final(self).n == old(self).n && final(self).tick_size == old(self).tick_size,',
         '            // C17: the signal is updated by the documented recursion from the mid-price observed in this call (of the agent\'s own asset), and remembered',
         '            final(self).momentum == mom_next(old(self).momentum, old(self).last_price, old(self).params.decay, %s),   // [C17.recursion]' % v['MIDO'],
         '            final(self).last_price == Some(%s),                                                                  // [C17.recursion]' % v['MIDO'],
         '            // C17: direction by the sign of the NEW signal M: buys only when M > 0, sells only when M < 0, nothing when M is zero (or NaN)',
         '            fgt(final(self).momentum, 0.0f64) ==> %s(*old(env), *final(env), %sSide::Bid),                                             // [C17.buys_when_rising]' % (v['NS'], v['AO']),
         '            flt(final(self).momentum, 0.0f64) ==> %s(*old(env), *final(env), %sSide::Ask),                                             // [C17.sells_when_falling]' % (v['NS'], v['AO']),
         '            !fgt(final(self).momentum, 0.0f64) && !flt(final(self).momentum, 0.0f64) ==> %s == %s,   // [C17.flat]' % (fin('final(env)'), fin('old(env)')),
         '            // at most one limit and one market order per trader per call',
         '            %s.len() <= %s.len() + 2 * old(self).trader_ids@.len(),                 // [C16.once_per_trader]' % (fin('final(env)'), fin('old(env)')),
         '            %s(final(self).orders@, *final(env)),                                                         // [C16.own_orders_known]' % v['OK'],
         '            // activity rules: per trader, in processing order, one order per action whose probability is >= 1 (when the signal has a direction) and none for probability 0 / no direction',
         '            exists|cut: Seq<int>| #[trigger] by_trader(%s, %s, old(self).trader_ids@, cut, %s, %s, old(self).trader_ids@.len() as int),   // [C16.activity C17.activity]' % (fin('old(env)'), fin('final(env)'), MLO(v, True), MHI(v, True)),
         '//@ at entry',
         '        broadcast use axiom_f64_add_total, axiom_f64_sub_total, axiom_f64_mul_total, axiom_f64_div_total;',
         '        proof { axiom_f64_deterministic(); }',
         '        let ghost mut cut: Seq<int> = Seq::empty();',
         '//@ at before_loop 0',
         '        proof {',
         '            assert(mid_price == %s);' % v['MID'],
         '            assert(%s);' % ov(v, '*env'),
         '            assert(m == mom_next(self.momentum, self.last_price, self.params.decay, mid_price));                                            // [C17.recursion]',
         '            // the propensity is a function of the MAGNITUDE of demand * tanh(scale * M) / n (C17: symmetric in rising and falling markets)',
         '            assert(p_market == mom_prob(m, self.last_price, self.params.demand, self.params.scale, self.n));                               // [C17.magnitude]',
         '            assert(p_limit == self.params.order_ratio.mul_spec(p_market));                                                                  // [C17.magnitude]',
         '            cut = seq![%s.len() as int];' % v['ORD']('env'),
         '            lemma_by_trader_init(%s, self.trader_ids@, mom_lo(m, p_limit, p_market), mom_hi(m, p_limit, p_market));' % v['ORD']('env'),
         '        }',
         '//@ loop 0 iter it',
         '            invariant',
         '                env.wf(), %s,%s' % (ov(v, '*env'), v['INV']),
         '                *self == *old(self), it.seq().len() == self.trader_ids@.len(), mid_price == %s,' % v['MID'],
         '                forall|j: int| 0 <= j < it.seq().len() ==> *it.seq()[j] == self.trader_ids@[j],',
         '                fgt(m, 0.0f64) ==> %s(*old(env), *env, %sSide::Bid),' % (v['NS'], v['A']),
         '                flt(m, 0.0f64) ==> %s(*old(env), *env, %sSide::Ask),' % (v['NS'], v['A']),
         '                !fgt(m, 0.0f64) && !flt(m, 0.0f64) ==> %s == %s,' % (v['ORD']('env'), v['ORD']('old(env)')),
         '                %s.len() <= %s.len() + 2 * it.index@, %s(live_orders@, *env),' % (v['ORD']('env'), v['ORD']('old(env)'), v['OK']),
         '                by_trader(%s, %s, self.trader_ids@, cut, mom_lo(m, p_limit, p_market), mom_hi(m, p_limit, p_market), it.index@ as int),' % (v['ORD']('old(env)'), v['ORD']('env')),
         '//@ at loop_body_start 0',
         '            broadcast use unit_draw_f64, below_one_below_threshold_f64;',
         '            let ghost os_i = %s;' % v['ORD']('env'),
         '            proof { assert(self.trader_ids@.contains(*trader_id)); axiom_f64_deterministic(); }',
         '//@ at loop_body_end 0',
         '            proof {',
         '                assert forall|j: int| 0 <= j < os_i.len() implies %s[j] == os_i[j] by { }' % v['ORD']('env'),
         '                lemma_by_trader_step(%s, os_i, %s, self.trader_ids@, cut, mom_lo(m, p_limit, p_market), mom_hi(m, p_limit, p_market), it.index@ as int);' % (v['ORD']('old(env)'), v['ORD']('env')),
         '                cut = cut.push(%s.len() as int);' % v['ORD']('env'),
         '            }']
    for (fn, ev, sd, quote) in (('place_buy_limit_order', 'e1', 'Side::Bid', 'buy_quote'), ('place_sell_limit_order', 'e3', 'Side::Ask', 'sell_quote')):
        L += ['//@ at before `%s%s(` #1' % (fn, v['SFX']), '                    let ghost %s = *env;' % ev,
              '//@ at after `%s%s(` #1' % (fn, v['SFX']), '                    proof {']
        L += limit_hint(v, ev, sd, quote, ' ' * 24, True)
        L += ['                    }']
        L += push_hint(v, 1 if ev == 'e1' else 2, ' ' * 20)
    for (ev, s_, sd) in (('e2', 'Bid', 'Side::Bid'), ('e4', 'Ask', 'Side::Ask')):
        L += ['//@ at before ' + v['MK'] % s_, '                    let ghost %s = *env;' % ev, '//@ at after ' + v['MK'] % s_, '                    proof {']
        L += market_hint(v, ev, sd, ' ' * 24, True)
        L += ['                    }']
    return L

def helpers():
    L = ['//@ # ------------------------------------------------------------------ common.rs',
         '//@ # rounding: float arithmetic (ceil / floor / clamp / cast) is decided bit-precisely by Kani on the real functions; in Verus the two functions are the',
         '//@ # uninterpreted rpd / rpu of their arguments (ASSUMED: they are functions)',
         '//@ fn round_price_up [C16]', '//@ ret r', '//@ external_body', '//@ sig', '        ensures r == rpu(p, tick_size)',
         '//@ fn round_price_down [C16]', '//@ ret r', '//@ external_body', '//@ sig', '        ensures r == rpd(p, tick_size)']
    for multi in (False, True):
        v = V(multi)
        for (fn, sd, quote) in (('place_buy_limit_order', 'Side::Bid', 'buy_quote'), ('place_sell_limit_order', 'Side::Ask', 'sell_quote')):
            if multi:
                sub_ = 'submitted_m(*old(env), *final(env), asset, %s, trade_vol, trader_id, Some(%s))' % (sd, QUOTE_T[quote].replace('TICK', 'tick_size'))
                okid = 'res->Ok_0 == (asset, old(env).market.order_books@[asset as int].orders@.len() as usize)'
                err = 'final(env).wf() && final(env).quiet_but(*old(env), asset as int) && bk_quiet(old(env).market.order_books@[asset as int], final(env).market.order_books@[asset as int])\n                && final(env).market.order_books@[asset as int].orders@ == old(env).market.order_books@[asset as int].orders@ && final(env).transactions@ == old(env).transactions@'
                req = 'old(env).wf(), asset < M'
            else:
                sub_ = 'submitted(*old(env), *final(env), %s, trade_vol, trader_id, Some(%s))' % (sd, QUOTE_T[quote].replace('TICK', 'tick_size'))
                okid = 'res->Ok_0 == old(env).order_book.orders@.len()'
                err = 'final(env).wf() && final(env).quiet(*old(env)) && final(env).order_book.orders@ == old(env).order_book.orders@ && final(env).transactions@ == old(env).transactions@'
                req = 'old(env).wf()'
            L += ['//@ fn %s%s [C16]' % (fn, v['SFX']), '//@ ret res', '//@ sig',
                  '        requires ' + req,
                  '        ensures',
                  '            res is Ok ==> ' + okid + ',',
                  '            // one order of the configured volume and trader, quoted at round(mid -/+ |draw|) on the caller\'s grid, queued as a New instruction; nothing else touched',
                  '            res is Ok ==> exists|d: f64| ' + sub_ + ',   // [C16.helper_contract]',
                  '            res is Err ==> ' + err + ',   // [C16.helper_no_trace]',
                  '//@ at entry',
                  '        broadcast use axiom_f64_add_total, axiom_f64_sub_total;',
                  '        proof { axiom_f64_deterministic(); }']
    return L

if __name__ == '__main__':
    out = ['//@ # BEGIN generated blocks (tools/gen/agents_blocks.py)'] + noise(False) + noise(True) + momentum(False) + momentum(True) + ['//@ # END generated blocks']
    hp = ['//@ # BEGIN generated helper blocks (tools/gen/agents_blocks.py)'] + helpers() + ['//@ # END generated helper blocks']
    p = os.path.join(os.path.dirname(__file__), '..', '..', 'contracts', 'agents.vc')
    s = open(p).read()
    if '//@ # BEGIN generated blocks' in s:
        a = s.index('//@ # BEGIN generated blocks'); b = s.index('//@ # END generated blocks') + len('//@ # END generated blocks\n')
        s = s[:a] + '\n'.join(out) + '\n' + s[b:]
        a = s.index('//@ # BEGIN generated helper blocks'); b = s.index('//@ # END generated helper blocks') + len('//@ # END generated helper blocks\n')
        s = s[:a] + '\n'.join(hp) + '\n' + s[b:]
    else:
        a = s.index('//@ fn NoiseAgent::update [C16]')
        s = s[:a] + '\n'.join(out) + '\n'
        a = s.index('//@ # ------------------------------------------------------------------ common.rs'); b = s.index('//@ fn cancel_live_orders [C16]')
        s1 = s[:a] + '\n'.join(hp) + '\n' + s[b:]
        # drop the old assumed helper contracts (kept: cancel_live_orders, cancel_live_orders_market)
        for fn in ('place_buy_limit_order', 'place_sell_limit_order', 'place_buy_limit_order_market', 'place_sell_limit_order_market'):
            m = re.search(r'//@ fn %s \[C16\]\n//@ ret res\n//@ external_body\n.*?(?=//@ fn |//@ # )' % fn, s1, re.S)
            assert m, fn
            s1 = s1[:m.start()] + s1[m.end():]
        s = s1
    open(p, 'w').write(s)
    print('written')
