#!/usr/bin/env python3
"""False-alarm sweep: behaviour-preserving changes (benign/<name>/patch.diff) against the checks; every result must be exit 0 or exit 2, never a VIOLATION.
benignsweep.py [-j N] [--props C01,C02,...] [names...]  -> prints a table, writes benign/sweep.json"""
import subprocess, sys, json, os, time, argparse, shutil, re
from concurrent.futures import ThreadPoolExecutor
ap = argparse.ArgumentParser(); ap.add_argument('-j', type=int, default=3); ap.add_argument('--props'); ap.add_argument('names', nargs='*')
a = ap.parse_args()
ROOT = os.path.dirname(os.path.dirname(os.path.abspath(__file__)))
BD = os.path.join(ROOT, 'benign')
ALL = [c['property_id'] for c in json.load(open(os.path.join(os.path.dirname(os.path.dirname(os.path.abspath(__file__))), 'MANIFEST.json')))['checks']]
# which checks can a change in a file influence at all (units that read the file)
BY_FILE = [('crates/order_book/src/market.rs', ['C07', 'C10', 'C12', 'C13', 'C14']), ('crates/order_book/', ALL), ('crates/step_sim/src/agents', ['C09', 'C16', 'C17']),
           ('crates/step_sim/src/market_env', ['C08', 'C09', 'C10', 'C11', 'C12', 'C13', 'C14', 'C16', 'C17']), ('crates/step_sim/src/', ['C05', 'C08', 'C09', 'C10', 'C11', 'C12', 'C13', 'C14', 'C16', 'C17', 'C18', 'C19']),
           ('rust/src', ['C18', 'C19']), ('crates/macros', ['C20'])]
names = a.names or sorted(d for d in os.listdir(BD) if os.path.exists(os.path.join(BD, d, 'patch.diff')))
def props_for(patch):
    files = re.findall(r'^\+\+\+ b/(\S+)', open(patch).read(), re.M)
    out = []
    for f in files:
        for pre, ps in BY_FILE:
            if f.startswith(pre):
                out += [p for p in ps if p not in out]
                break
    return [p for p in ALL if p in out]
def one(name):
    d = os.path.join(BD, name)
    props = a.props.split(',') if a.props else props_for(os.path.join(d, 'patch.diff'))
    wt = '/tmp/bsweep_' + name
    subprocess.run(['git', '-C', '/repo', 'worktree', 'remove', '--force', wt], capture_output=True)
    subprocess.run(['git', '-C', '/repo', 'worktree', 'add', '-q', '--detach', wt, 'HEAD'], check=True)
    out = {}
    try:
        subprocess.run(['git', '-C', wt, 'apply', os.path.join(d, 'patch.diff')], check=True)
        env = dict(os.environ, REPO=wt, VERIF_OUT='/tmp/bsweep_out_' + name)
        for p in props:
            t = time.time()
            r = subprocess.run([os.path.join(ROOT, 'check'), p], capture_output=True, text=True, cwd=ROOT, env=env)
            lines = [l for l in r.stdout.split('\n') if l.startswith(('VIOLATION', 'UNDECIDED', 'OK', 'refuted', 'bounded stand-in', 'undecided unit'))]
            out[p] = {'rc': r.returncode, 'lines': lines[:8], 's': round(time.time() - t, 1)}
    finally:
        subprocess.run(['git', '-C', '/repo', 'worktree', 'remove', '--force', wt], capture_output=True)
        shutil.rmtree('/tmp/bsweep_out_' + name, ignore_errors=True)
    return name, out
res = {}
with ThreadPoolExecutor(max_workers=a.j) as ex:
    for name, out in ex.map(one, names):
        res[name] = out
        try:
            _old = json.load(open(os.path.join(BD, 'sweep.json')))
        except Exception:
            _old = {}
        _old.update(res)
        json.dump(dict(sorted(_old.items())), open(os.path.join(BD, 'sweep.json'), 'w'), indent=1)
        print(name, ' '.join('%s=%d' % (p, v['rc']) for p, v in out.items()))
        for p, v in out.items():
            if v['rc'] == 1:
                print('   !! FALSE ALARM %s' % p)
            for l in v['lines']:
                if l.startswith(('refuted', 'UNDECIDED', 'VIOLATION')): print('      [%s] %s' % (p, l[:230]))
old = {}
try:
    old = json.load(open(os.path.join(BD, 'sweep.json')))
except Exception:
    pass
old.update(res)
json.dump(dict(sorted(old.items())), open(os.path.join(BD, 'sweep.json'), 'w'), indent=1)
