#!/usr/bin/env python3
"""check <ID> [--tier quick|thorough] [--replay <file>]

Decides one property of /verif/properties.jsonl on /repo's current working tree by contract-based deductive verification:
the functions the property depends on are extracted mechanically from the working tree, the contracts of contracts/*.vc are
spliced in, Verus (and, for floating-point / bit-level clauses, Kani) discharges every obligation, and the obligations carrying
the property's tag decide the exit code.

exit 0  every obligation tagged with the property is discharged (or the refuted ones are exactly the listed known findings)
exit 1  + `VIOLATION property=<id> replay=<path>`: an obligation that is discharged on the unchanged tree is refuted
exit 2  undecided: extraction outside the grammar, lost function anchor, verifier front-end error, resource limit, unstable proof
"""
import argparse
import hashlib
import json
import os
import re
import subprocess
import sys
import time
from concurrent.futures import ThreadPoolExecutor

HERE = os.path.dirname(os.path.abspath(__file__))
ROOT = os.path.dirname(HERE)
sys.path.insert(0, HERE)
import extract      # noqa: E402
import vrun         # noqa: E402
import obligations as ob   # noqa: E402
from rsparse import Unsupported   # noqa: E402

REPO = os.environ.get('REPO', '/repo')
# VERIF_OUT redirects everything a run writes (generated units, evidence, replay files) so that development sweeps over scratch
# copies of the repository (REPO=<dir>) can run side by side; the registered commands never set it.
OUT = os.environ.get('VERIF_OUT', ROOT)
BUILD = os.path.join(OUT, 'build')
CACHE = os.path.join(ROOT, '.cache')
EVID = os.path.join(OUT, 'evidence')
REPLAYS = os.path.join(OUT, 'replays')
RLIMIT = 60            # Verus --rlimit (seconds-ish); generous and fixed
NO_CACHE = False


class Undecided(Exception):
    pass


def sh(cmd, **kw):
    return subprocess.run(cmd, shell=isinstance(cmd, str), capture_output=True, text=True, **kw)


_verus_version = None


def verus_version():
    global _verus_version
    if _verus_version is None:
        p = sh(['verus', '--version'])
        _verus_version = ' '.join(p.stdout.split())[:200]
    return _verus_version


# ---------------------------------------------------------------------------------------------------------------- Verus units
class UnitRun:
    """One generated unit, verified once (or fetched from the cache keyed by the generated text)."""

    def __init__(self, name, vcfile, defines=None, variant=None, canary=False):
        self.name, self.vcfile, self.defines, self.variant, self.canary = name, vcfile, defines or {}, variant, canary
        self.label = name + (('_' + variant) if variant else '') + ('_canary' if canary else '')

    def build(self, stub_fns=None):
        defines = dict(self.defines)
        if self.canary:
            defines['canary'] = True
        if stub_fns:
            defines['stub_fns'] = dict(stub_fns)
        try:
            self.vc = extract.Vc(os.path.join(ROOT, 'contracts', self.vcfile), defines)
            var = '_'.join(x for x in [self.variant, 'canary' if self.canary else None] if x) or None
            self.rs, self.meta = extract.build_unit(REPO, os.path.join(ROOT, 'contracts', self.vcfile), BUILD, defines, var)
        except (Unsupported, extract.VcError) as e:
            raise Undecided('extraction of unit %s: %s' % (self.label, e))
        self.gen_lines = open(self.rs).read().split('\n')
        self.table = ob.build_table(self.vc, self.meta, self.name + (('_' + self.variant) if self.variant else ''))
        return self

    def verify(self, seed=0, funcs=None, use_cache=True, multiple_errors=50):
        key = hashlib.sha256(('|'.join([self.meta['sha256'], str(seed), str(RLIMIT), verus_version(), ','.join(funcs or []), str(multiple_errors)])).encode()).hexdigest()
        cp = os.path.join(CACHE, key + '.json')
        if use_cache and os.path.exists(cp):
            try:
                res = json.load(open(cp))
                res['cache_hit'] = True
                return res
            except Exception:
                pass
        if funcs:
            # one invocation per function (Verus takes a single --verify-function); run them in parallel
            def one(f):
                run = vrun.run_verus(self.rs, seed=seed, rlimit=RLIMIT, extra=(['--verify-only-module', self.meta['module']] if self.meta.get('module') else ['--verify-root']) + ['--verify-function', f], multiple_errors=multiple_errors)
                return vrun.parse(run, self.meta), run
            merged = None
            with ThreadPoolExecutor(max_workers=8) as ex:
                for res, run in ex.map(one, funcs):
                    if merged is None:
                        merged = res
                        merged['wall_s'] = run['wall_s']
                        merged['cmd'] = run['cmd']
                    else:
                        merged['functions'].update(res['functions'])
                        merged['diagnostics'].extend(res['diagnostics'])
                        merged['verified'] += res['verified']
                        merged['errors'] += res['errors']
                        merged['smt_ms'] += res['smt_ms']
                        merged['wall_s'] = max(merged['wall_s'], run['wall_s'])
                        merged['frontend_error'] = merged['frontend_error'] or res['frontend_error']
                        merged['rlimit_hit'] = merged['rlimit_hit'] or res['rlimit_hit']
            res = merged
        else:
            run = vrun.run_verus(self.rs, seed=seed, rlimit=RLIMIT, threads=16, multiple_errors=multiple_errors, module=self.meta.get('module'))
            res = vrun.parse(run, self.meta)
            res['wall_s'] = run['wall_s']
            res['cmd'] = run['cmd']
            if run['rc'] == -9:
                res['frontend_error'] = 'verus timed out'
        res['cache_hit'] = False
        res['seed'] = seed
        os.makedirs(CACHE, exist_ok=True)
        if not res.get('frontend_error'):
            with open(cp + '.tmp', 'w') as f:
                json.dump(res, f)
            os.replace(cp + '.tmp', cp)
        return res

    def failures(self, res):
        """-> (list of {obligation, fn, detail}, list of infrastructure problems)"""
        fails, infra = [], []
        for d in res['diagnostics']:
            if d['kind'] == 'rlimit':
                infra.append('resource limit: ' + d['message'])
                continue
            if d['kind'] == 'frontend':
                infra.append('front end: ' + d['message'])
                continue
            oid, fn, detail = ob.attribute(d, self.table, self.meta, self.gen_lines)
            if oid is None:
                infra.append('diagnostic outside the extracted functions (ghost fn %s): %s' % (detail.get('ghost_fn'), d['message']))
                continue
            fails.append({'obligation': oid, 'full': oid + (('|' + detail['sub']) if detail.get('sub') else ''), 'fn': fn, 'detail': detail})
        # functions whose body was outside the extractor grammar: emitted as stubs, their obligations are not generated (counted as unproved, never as refuted-with-trust)
        for st in self.meta.get('stubbed', []):
            for o in self.table:
                if o['fn'] == st['fn'] and o['kind'] != 'requires':
                    fails.append({'obligation': o['id'], 'full': o['id'], 'fn': st['fn'], 'not_generated': True,
                                  'detail': {'message': 'obligation not generated: the body of %s is outside the extractor grammar (%s)' % (st['fn'], st['reason']), 'where': [], 'fn': st['fn']}})
        # functions reported unsuccessful without any diagnostic mapped to them
        for name, f in res['functions'].items():
            if not f['success'] and not any(x['fn'] and (x['fn'] == name or x['fn'].endswith(name)) for x in fails):
                if not any(name in i for i in infra):
                    infra.append('function %s failed without an attributable diagnostic' % name)
        return fails, infra


def scan_assumptions(gen_lines, meta):
    pats = [r'assume_specification', r'external_body', r'\baxiom\b', r'\bassume\s*\(', r'\badmit\s*\(', r'external_fn_specification', r'#\[verifier::external', r'verifier::exec_allows_no_decreases_clause', r'\bunsafe\b']
    hits = []
    for k, l in enumerate(gen_lines):
        code = l.split('//')[0]
        for p in pats:
            if re.search(p, code):
                o = meta['origin'][k] if k < len(meta['origin']) else {}
                hits.append('%s:%s: %s' % (os.path.basename(str(o.get('file', o.get('kind')))), o.get('line', ''), ' '.join(l.split())[:160]))
                break
    return hits


# ---------------------------------------------------------------------------------------------------------------- properties
def V(unit, vcfile=None, variant=None, defines=None, note='', tags=None, only_fns=None, canary=True):
    return {'engine': 'verus', 'unit': unit, 'vcfile': vcfile or (unit + '.vc'), 'variant': variant, 'defines': defines or {}, 'note': note,
            'tags': tags, 'only_fns': only_fns, 'canary': canary}


def K(harness, kind, text, tags, bound=None, tier='quick'):
    """Kani harness on the real crates. kind: 'complete' (loop-free, full-domain: a proof) or 'bounded' (stand-in, never counted as proved).
    tier='thorough': too slow for the every-change check (measured minutes), run by the thorough command only"""
    return {'harness': harness, 'kind': kind, 'text': text, 'tags': tags, 'bound': bound, 'tier': tier}


KANI = {
    'C02': [K('book::mid_price_exact', 'complete', 'for every pair of touch prices (crossed included) mid_price() does not panic and equals (bid + ask) / 2 exactly; bid_ask stubbed by its Verus-proved contract', ['C02.mid_price'])],
    'C16': [
        K('proofs::round_down_grid', 'complete', 'round_price_down: tick 1..=10, EVERY f64 p with 0 <= p <= 2^32-11: result on the grid, <= p, within one tick (measured 236 s)', ['C16.rounding'], tier='thorough'),
        K('proofs::round_up_grid', 'complete', 'round_price_up: tick 1..=10, EVERY f64 p with 0 <= p <= 2^32-11: result on the grid, within one tick above and less than 1 below p (measured ~9 min)', ['C16.rounding'], tier='thorough'),
        K('agents::helper_buy_limit', 'complete', 'place_buy_limit_order (real body, every distribution, every generator, mid a half-integer in [1, 1e6], tick 1..=10): Ok, price on grid and <= mid, configured volume and trader', ['C16.buy_below_mid']),
        K('agents::helper_sell_limit', 'complete', 'place_sell_limit_order (same domain): price >= mid, configured volume and trader, on grid unless clamped to Price::MAX', ['C16.sell_above_mid']),
        K('float_lemmas::unit_draw_f32', 'complete', 'rand: rng.gen::<f32>() lies in [0, 1) for EVERY generator output (the axiom unit_draw_f32 of the Verus unit agents)', ['C16.activity']),
        K('float_lemmas::unit_draw_f64', 'complete', 'rand: rng.gen::<f64>() lies in [0, 1) for EVERY generator output (the axiom unit_draw_f64 of the Verus unit agents)', ['C16.activity']),
        K('float_lemmas::below_one_below_threshold_f32', 'complete', 'for all f32 u, p: u < 1 <= p implies u < p and not u >= p (axiom below_one_below_threshold_f32)', ['C16.activity']),
        K('float_lemmas::below_one_below_threshold_f64', 'complete', 'for all f64 u, p: u < 1 <= p implies u < p and not u >= p (axiom below_one_below_threshold_f64)', ['C16.activity']),
        K('agents::cancel_live_orders_rules', 'bounded', 'cancel_live_orders (real body; Env::order_status / cancel_order stubbed by their contracts; every status pair, every generator): only listed Active orders are cancelled, p >= 1 cancels all, p == 0 cancels none', ['C16.cancel_rules'], bound='two orders in the list; unwind 12'),
        K('agents::noise_update_rules', 'bounded', 'NoiseAgent::update (real body; callees stubbed by recording contracts; every generator): p in {0} u [1, inf) gives exactly the documented number of instructions with the configured volume and the own trader id', ['C16.activity'], bound='one trader, one call; unwind 12'),
        K('market_agents::helper_buy_limit_market', 'complete', 'place_buy_limit_order_market (real body, every distribution / generator): Ok, own asset, price on grid and <= mid, configured volume and trader', ['C16.buy_below_mid']),
        K('market_agents::helper_sell_limit_market', 'complete', 'place_sell_limit_order_market: own asset, price >= mid, configured volume and trader, on grid unless clamped', ['C16.sell_above_mid']),
        K('market_agents::noise_market_update_rules', 'bounded', 'NoiseMarketAgent::update: documented number of instructions for p in {0} u [1, inf), configured volume, own trader id, own asset', ['C16.activity'], bound='one trader, one call; unwind 12'),
        K('momentum_memory::momentum_carried_over', 'bounded', 'MomentumAgent: with decay 1/2 a move followed by a flat step still trades once (activity follows the documented probability computed from the carried-over signal)', ['C16.activity'], bound='one trader, three calls'),
        K('market_agents::momentum_market_direction', 'bounded', 'MomentumMarketAgent with order ratio 0: exactly one MARKET order (no limit order: probability 0 never happens, probability >= 1 always happens) in the direction of the move', ['C16.activity'], bound='one trader, two calls; unwind 12'),
        K('proofs::round_clamp_on_grid', 'complete', 'round_price_up for EVERY finite request is on the grid (expected to fail: known finding, clamp to Price::MAX)', ['C16.clamp_finding']),
        K('agents::helper_sell_limit_always_on_grid', 'complete', 'place_sell_limit_order with an arbitrary finite draw submits an on-grid price (expected to fail: known finding)', ['C16.clamp_finding']),
    ],
    'C17': [
        K('float_lemmas::unit_draw_f64', 'complete', 'rand: rng.gen::<f64>() lies in [0, 1) for EVERY generator output (the axiom unit_draw_f64 of the Verus unit agents)', ['C17.activity']),
        K('float_lemmas::below_one_below_threshold_f64', 'complete', 'for all f64 u, p: u < 1 <= p implies u < p and not u >= p (axiom below_one_below_threshold_f64)', ['C17.activity']),
        K('agents::momentum_falling_sells', 'bounded', 'MomentumAgent::update twice with a falling mid (saturated demand): exactly one SELL market order of the configured volume by the own trader', ['C17.sells_when_falling'], bound='one trader, two calls, decay 1, demand 5, scale 0.5, drop in 6..=1000; tanh replaced by a sign-preserving saturating model; unwind 12'),
        K('agents::momentum_rising_buys', 'bounded', 'rising mid: exactly one BUY market order (plus one buy limit order when the order ratio is >= 1)', ['C17.buys_when_rising'], bound='as above; rise in 6..=1000'),
        K('agents::momentum_flat_nothing', 'bounded', 'unchanged mid (M == 0): nothing is submitted', ['C17.flat'], bound='as above'),
        K('market_agents::momentum_market_direction', 'bounded', 'MomentumMarketAgent::update twice (integer and half-tick mids): falling mid -> one SELL, rising mid -> one BUY, own asset', ['C17.market_variant'], bound='one trader, two calls, decay 1; unwind 12'),
        K('market_agents::momentum_market_carried_over', 'bounded', 'multi-asset agent, decay 1/2: a move of 32 followed by a pull-back of 4 still trades once in the direction of M (not of the last price change)', ['C17.recursion'], bound='one trader, three calls'),
        K('momentum_memory::momentum_carried_over', 'bounded', 'decay 1/2: a move of 32 followed by a flat step still trades once in the direction of the move (M carried over by the documented recursion)', ['C17.recursion'], bound='one trader, three calls'),
        K('momentum_memory::momentum_zero_signal_resets', 'bounded', 'decay 1/2: when M returns to exactly zero the following flat step submits nothing', ['C17.recursion'], bound='one trader, four calls'),
    ],
}


PANIC_FNS = ('unwrap_failed', 'expect_failed', 'panicking::panic', 'panic_bounds_check', 'panic_fmt', 'panic_display', 'panic_nounwind', 'assert_failed', 'begin_panic')


def kani_genuine(fc):
    """A failed CBMC check counts when it lies in the harness or in the repository, or when it is a reachable PANIC (unwrap / expect / explicit panic /
    bounds check) wherever the panicking function lives - a dependency aborting on values the repository passed to it aborts the simulation.
    Failed memory-safety checks inside std (`__rust_dealloc`, `drop_in_place`, `ptr::write`: measured to appear spuriously under partial unwinding) do not."""
    loc = fc['location']
    if 'src/lib.rs' in loc or 'crates/' in loc:
        return True
    return any(p in fc['check'] or p in loc for p in PANIC_FNS)


def kani_version():
    p = sh(['cargo', 'kani', '--version'])
    return ' '.join((p.stdout + p.stderr).split())[:80]


def kani_sources_hash():
    h = hashlib.sha256()
    roots = [os.path.join(REPO, 'crates', 'order_book', 'src'), os.path.join(REPO, 'crates', 'step_sim', 'src'), os.path.join(REPO, 'crates', 'macros', 'src'), os.path.join(ROOT, 'kani')]
    for r in roots:
        for d, _, fs in sorted(os.walk(r)):
            for f in sorted(fs):
                if f.endswith(('.rs', '.in', '.toml')):
                    h.update(f.encode())
                    h.update(open(os.path.join(d, f), 'rb').read())
    for f in ('Cargo.toml', 'Cargo.lock'):
        pth = os.path.join(REPO, f)
        if os.path.exists(pth):
            h.update(open(pth, 'rb').read())
    return h.hexdigest()


def run_kani(pid, seed, tier):
    """Runs the property's harnesses in one `cargo kani` invocation (-j), parses per-harness results. Cached by a hash of the crates' sources."""
    hs = [h for h in KANI.get(pid, []) if h.get('tier', 'quick') == 'quick' or tier == 'thorough']
    if not hs:
        return []
    key = hashlib.sha256((kani_sources_hash() + '|' + ','.join(h['harness'] for h in hs) + kani_version()).encode()).hexdigest()
    cp = os.path.join(CACHE, 'kani_' + key + '.json')
    if os.path.exists(cp) and tier == 'quick':
        out = json.load(open(cp))
        for o in out:
            o['result_from_cache'] = True
        return out
    b = os.path.join(BUILD, 'kani')
    os.makedirs(b, exist_ok=True)
    with open(os.path.join(b, 'Cargo.toml'), 'w') as f:
        f.write(open(os.path.join(ROOT, 'kani', 'Cargo.toml.in')).read().replace('@REPO@', REPO))
    sh(['rm', '-rf', os.path.join(b, 'src')])
    sh(['cp', '-r', os.path.join(ROOT, 'kani', 'src'), os.path.join(b, 'src')])
    if os.path.exists(os.path.join(REPO, 'Cargo.lock')):
        sh(['cp', os.path.join(REPO, 'Cargo.lock'), os.path.join(b, 'Cargo.lock')])
    cmd = ['cargo', 'kani', '-Z', 'stubbing', '--exact', '-j', '8', '--output-format', 'terse']
    for h in hs:
        cmd += ['--harness', h['harness']]
    env = dict(os.environ, CARGO_NET_OFFLINE='true')
    try:
        p = subprocess.run(cmd, cwd=b, capture_output=True, text=True, env=env, timeout=3000)
    except subprocess.TimeoutExpired:
        raise Undecided('cargo kani timed out')
    log = p.stdout + '\n' + p.stderr
    with open(os.path.join(b, 'last_%s.log' % pid), 'w') as f:
        f.write(log)
    if 'error: could not compile' in log or 'error[E' in log or 'Failed to match the following harness' in log:
        raise Undecided('the Kani harness crate does not compile against this tree (or a harness is missing): %s' % log[-600:])
    # terse -j output: "Thread N: Checking harness X..." / "Thread N:   - Stub: .." / "Thread N: " followed by an unprefixed result block
    cur = {}
    secs = {}
    stubs = {}
    active = None
    for line in log.split('\n'):
        m = re.match(r'Thread (\d+): Checking harness ([\w:]+)\.\.\.', line)
        if m:
            cur[m.group(1)] = m.group(2)
            secs.setdefault(m.group(2), [])
            active = None
            continue
        m = re.match(r'Thread (\d+):\s+- Stub: (.*)', line)
        if m:
            stubs.setdefault(cur.get(m.group(1)), []).append(' '.join(m.group(2).split()))
            continue
        m = re.match(r'Thread (\d+):\s*$', line)
        if m:
            active = cur.get(m.group(1))
            continue
        if re.match(r'Thread (\d+):', line):
            active = None
            continue
        if active is not None:
            secs[active].append(line)
    out = []
    for h in hs:
        sec = '\n'.join(secs.get(h['harness'], []))
        r = dict(h)
        r['cmd'] = ' '.join(cmd)
        if h['harness'] not in secs or 'VERIFICATION:-' not in sec:
            raise Undecided('no verdict for harness %s in the Kani output (out of memory / timeout?)' % h['harness'])
        m = re.search(r'Verification Time: ([0-9.]+)s', sec)
        r['seconds'] = float(m.group(1)) if m else None
        m = re.search(r'\*\* (\d+) of (\d+) failed', sec)
        r['checks'] = int(m.group(2)) if m else None
        r['stubs'] = stubs.get(h['harness'], [])
        fails = []
        for fm in re.finditer(r'Failed Checks: (.*)\n\s*File: "(.*?)", line (\d+), in (\S+)', sec):
            fails.append({'check': fm.group(4), 'description': fm.group(1), 'location': '%s:%s in %s' % (fm.group(2), fm.group(3), fm.group(4))})
        r['failed_checks'] = fails
        if 'VERIFICATION:- SUCCESSFUL' in sec:
            r['status'] = 'successful'
        else:
            r['status'] = 'failed'
            # failures outside the harness and outside the repository (std / Kani library internals) are undecided, never an alarm
            inside = [f for f in fails if kani_genuine(f)]
            if not inside:
                # only failures inside library internals (measured: spurious memory-safety failures under partial unwinding): this harness is undecided
                r['status'] = 'undecided'
                r['undecided_reason'] = 'fails without a failed check inside the harness or the repository and without a reachable panic (library internals / unwinding / resources): %s' % (fails[:1],)
        r['result_from_cache'] = False
        out.append(r)
    und = [r for r in out if r['status'] == 'undecided']
    if und and not any(r['status'] == 'failed' for r in out):
        raise Undecided('harness %s %s' % (und[0]['harness'], und[0]['undecided_reason']))
    os.makedirs(CACHE, exist_ok=True)
    if not und:
        json.dump(out, open(cp, 'w'))
    return out


def R(name, args, bound):
    """bounded stand-in executed by the replay runner on the real code; never counted as proved"""
    return {'engine': 'replay', 'name': name, 'args': args, 'bound': bound}


PROPS = {
    'C01': {'legs': [V('book'), V('hist')], 'design': '§5 C01'},
    'C02': {'legs': [V('book'), V('hist')], 'design': '§5 C02'},
    'C03': {'legs': [V('book'), V('hist')], 'design': '§5 C03'},
    'C04': {'legs': [V('book'), V('hist')], 'design': '§5 C04'},
    'C06': {'legs': [V('book'), V('hist')], 'design': '§5 C06'},
    'C07': {'legs': [V('book'), V('market'),
                     R('truncation', ['truncate'], 'snapshots of 4 generated states, compact and pretty: every byte prefix must be rejected by load_json with Err (no panic, no Ok)'),
                     R('market_round_trip', ['market-snapshot'], '60 random two-asset markets (per-asset ticks, trading toggled, crossed books while trading is off): in-memory and through-file (compact / pretty, written over a longer existing file) reloads show the same orders, trades and market data and stay equal under a 10-operation continuation'),
                     R('file_round_trip', ['search', '--prop', 'C07', '--depth', '2', '--random', '400', '--len', '40', '--budget', '30'],
                       'all histories of depth <= 2 over the small alphabet plus 400 random histories of 40 operations with in-memory and through-file reloads (the file is written over an existing longer file): every view equal after reload and under the continuation')],
            'design': '§5 C07'},
    # C05 demands C01-C04, C06, C07 WITHOUT the clock-discipline precondition: the same unit with those conjuncts removed
    'C05': {'legs': [V('book', variant='nodisc', defines={'defs': ['nodisc']}, tags=['C01', 'C02', 'C03', 'C04', 'C06', 'C07'], canary=False,
                       note='book unit with the clock-discipline conjuncts of place_pre / replace_pre / orders_ok removed'),
                     V('env', variant='nodisc', defines={'defs': ['nodisc']}, tags=['C05', 'C08', 'C10', 'C11'], only_fns=['Env::step'], canary=False,
                       note='Env::step without the precondition that the batch is no longer than the step size')], 'design': '§5 C05'},
    # C12 quantifies over arbitrary modify prices: the grid clause of modify_order is checked without an on-grid precondition in a variant
    'C08': {'legs': [V('env'), V('menv')], 'design': '§5 C08'},
    # C09, the contract-expressible part (runner threading, progress-bar branches, step's use of the generator) + a bounded stand-in across OS processes
    'C09': {'legs': [V('runner', canary=False, note='the runners have no preconditions (nothing to be vacuous about)'), V('env', tags=['C09']), V('menv', tags=['C09']),
                     R('determinism', ['determinism'], '5 compositions of the built-in agents through the derive macros (single-asset: momentum + noise + random, two noise sets; two-asset: random + noise + momentum + random; ticks 1 / 2 / 5), 6 seeds each (0, 2^64-1, 2^32 and three derived from the base seed), 40-80 steps, and 255 steps for a composition of random agents only, through the real sim_runner / market_sim_runner: the digest of every order, trade, recorded series and per-step traded volume is compared between two runs in one process, a run in a SEPARATE OS process, and a run in a separate process through the progress-bar branch; the seeds of a composition must not all give the same run; every run must produce orders')],
            'design': '§5 C09'},
    'C10': {'legs': [V('env'), V('menv'), V('book'), V('market')], 'design': '§5 C10'},
    'C11': {'legs': [V('env'), V('menv'), V('book')], 'design': '§5 C11'},
    'C12': {'legs': [V('book'), V('market'), V('env'), V('menv'), V('book', variant='c12', defines={'defs': ['finding_c12']}, only_fns=['OrderBook::modify_order'], canary=False,
                                  note='modify_order with the unconditional grid clause (expected refutation, known finding)')], 'design': '§5 C12'},
    'C13': {'legs': [V('book'), V('market'), V('env'), V('menv'), V('hist')], 'design': '§5 C13'},
    'C14': {'legs': [V('market'), V('menv')], 'design': '§5 C14'},
    # C15: what a contract can say - the processing order IS the library shuffle of the queue under the supplied generator, once, never reordered - + a statistical stand-in
    'C15': {'legs': [V('env', tags=['C15']), V('menv', tags=['C15']),
                     R('shuffle_statistics', ['shuffle-stats', '--steps', '200000'], 'Env and MarketEnv<2,3>, three instruction mixes (placements alternating with cancellations of resting orders; cancellations only; placements only; two assets): for each mix, for batch sizes 2, 3, 4 all n! processing orders counted over 200000 seeded steps each, for batch size 8 the 8x8 position-by-item table and the 28 pairwise orders over 200000 seeded steps; every cell within the Bernstein bound for an unbiased shuffle (union bound over all 912 cells, false-alarm probability < 1e-9); deterministic (step k uses the generator seeded with base + k)')],
            'design': '§5 C15'},
    'C16': {'legs': [V('agents')], 'design': '§5 C16'},
    'C17': {'legs': [V('agents')], 'design': '§5 C17'},
    'C18': {'legs': [V('py'), V('book'),
                     {'engine': 'python', 'name': 'cpython_orderbook', 'n': 60, 'bound': '60 seeded random call sequences (5-40 calls: place incl. off-grid and market, cancel, modify, toggles) on bourse.core.OrderBook through the compiled extension module under CPython: ids, documented tuple positions and encodings, ValueError / OverflowError leave the object unchanged, every getter equals the value recomputed from get_orders()'},
                     {'engine': 'python', 'name': 'cpython_rust_twin', 'mode': 'C18twin', 'n': 600, 'n_thorough': 4000, 'needs_replay': True, 'bound': '600 (thorough: 4000) seeded random call scripts (10-60 calls; half of them confined to one bid and one ask price so that queue position is visible in the trades) over the non-numpy API, alternately on bourse.core.OrderBook (place incl. market / off-grid / lowest prices, cancel, modify incl. restated price or volume and None, set_time, toggles) and bourse.core.StepEnv (the same plus step, several steps per script, batches whose processing order is visible), executed on the compiled extension module under CPython and, call by call, on the Rust core (bourse_book::OrderBook, bourse_de::Env with Xoroshiro128StarStar::seed_from_u64(seed)) by the replay runner: every return value, ValueError, and after every call orders, trades, statuses, touch prices, volumes, time, traded volume and every history series must agree, in the documented encodings'}],
            'design': '§5 C18'},
    'C20': {'legs': [{'engine': 'derive'},
                     R('derive_execution', ['derive-twin'], '17 struct shapes (same-named structs of equal size in different modules declared in different orders - within and across the two derives -, adjacent members of one type, A-B-A, runs, nested sets, attributes / doc comments / cfg, parenthesised types, type macros, `$t:ty` fragments of a declarative macro; both derives) compiled with the REAL derive macros of the working tree and executed twice each: every member is a probe that draws from the shared generator and places an order carrying its id and the draw; the order list must be the hand-written sequence - every member once, in declaration order, same environment and generator')],
            'design': '§5 C20'},
    'C19': {'legs': [V('py'), V('env'), V('book'),
                     {'engine': 'python', 'name': 'cpython_arrays_and_dictionary', 'n': 40, 'bound': '40 seeded random simulations (3-8 steps, ticks 1/2/5; the book mid-range, at the bottom of the price range with bids down to price 0, or at its top) on StepEnv and StepEnvNumpy through the compiled extension module: both observation arrays, get_prices / get_volumes and EVERY key and series of the market-data dictionary against quantities recomputed from get_orders() / get_trades() after each step'},
                     {'engine': 'python', 'name': 'dataframe_columns_static', 'mode': 'C19frames', 'n': 1, 'needs_repo': True, 'bound': 'static conformance only (pandas is not installed, the helpers cannot be executed): the literal `columns` list of trades_to_dataframe / orders_to_dataframe in src/bourse/data_processing.py against the field order of cast_trade / cast_order in rust/src/types.rs (whose tuple layout is proved in the unit py), with the documented short names'}],
            'design': '§5 C19'},
}


class ShimUnit:
    def __init__(self, label, rs, meta):
        self.label, self.rs, self.meta = label, rs, meta


def decide_derive_leg(pid, leg, seed, log):
    """C20: real macro expansion of a finite family of shapes, each generated `update` verified against the declared-order composition."""
    import derive_check as dc
    work = os.path.join(BUILD, 'derive_shapes')
    expanded, stderr, cmd = dc.expand(REPO, work)
    if 'impl bourse_de::agents' not in expanded:
        raise Undecided('the derive macros did not expand (crate does not build?): %s' % stderr[-400:])
    impls = dc.cut_impls(expanded)
    text, obligations, problems = dc.verus_unit(impls)
    rs = os.path.join(BUILD, 'derive.rs')
    with open(rs, 'w') as f:
        f.write(text)
    sha = hashlib.sha256(text.encode()).hexdigest()
    lines = text.split('\n')
    meta = {'unit': 'derive', 'sha256': sha, 'sources': ['crates/macros/src/lib.rs (through rustc -Zunpretty=expanded)'], 'dropped': [], 'rules': [], 'warnings': [],
            'functions': [], 'origin': [{'kind': 'gen'}] * len(lines), 'module': None}
    # function ranges for attribution
    cur = None
    for k, l in enumerate(lines):
        m = re.match(r'impl<.*> (\w+)<', l)
        if m:
            cur = {'name': m.group(1) + '::update', 'gen_start': k + 1, 'gen_end': len(lines), 'tags': ['C20']}
            meta['functions'].append(cur)
        if l.startswith('}') and cur is not None and k + 1 > cur['gen_start'] and lines[k - 1].strip() == '}':
            cur['gen_end'] = k + 1
            cur = None
    u = ShimUnit('derive', rs, meta)
    key = hashlib.sha256((sha + verus_version()).encode()).hexdigest()
    cp = os.path.join(CACHE, key + '.json')
    if os.path.exists(cp):
        res = json.load(open(cp)); res['cache_hit'] = True
    else:
        run = vrun.run_verus(rs, seed=0, rlimit=RLIMIT, threads=16)
        res = vrun.parse(run, meta)
        res['wall_s'], res['cmd'], res['cache_hit'] = run['wall_s'], run['cmd'], False
        if not res.get('frontend_error'):
            os.makedirs(CACHE, exist_ok=True)
            json.dump(res, open(cp, 'w'))
    refuted = []
    by_fn = {o['fn']: o for o in obligations if o['kind'] == 'ensures'}
    if res.get('frontend_error'):
        # a generated body that does not even type-check against the members' update signature (wrong arity, unknown field) is a refutation of that shape
        raise Undecided('verus front end on the derive unit: %s' % res['frontend_error'])
    for d in res['diagnostics']:
        if d['kind'] != 'verification':
            raise Undecided('derive unit: %s' % d['message'])
        prim = [x for x in d['spans'] if x['primary']] or d['spans']
        fn = ob.fn_at(meta, prim[0]['gen_line'])
        o = by_fn.get(fn)
        if o is None:
            raise Undecided('derive unit: diagnostic outside the generated impls: %s' % d['message'])
        detail = {'message': d['message'], 'where': [{'label': x['label'], 'origin': 'derive.rs:%d' % x['gen_line'], 'text': x['text'][:200], 'primary': x['primary']} for x in d['spans']], 'fn': fn}
        refuted.append({'obligation': o['id'], 'full': o['id'], 'fn': fn, 'detail': detail})
    # shapes whose impl is missing / duplicated, and signatures that differ from the trait's
    for pr in problems:
        nm = pr.split(':')[0]
        oid = 'derive/%s::update/ensures[composition]' % nm
        obligations.append({'id': oid, 'fn': nm + '::update', 'kind': 'ensures', 'tags': ['C20.composition'], 'explicit': True, 'text': pr})
        refuted.append({'obligation': oid, 'full': oid, 'fn': nm + '::update', 'detail': {'message': pr, 'where': [], 'fn': nm}})
    for sh in dc.SHAPES:
        got = impls.get(sh['name'], [])
        if len(got) == 1 and dc.norm(got[0][1]) != dc.norm(dc.EXPECT_SIG[sh['macro']]):
            oid = 'derive/%s::update/signature' % sh['name']
            refuted.append({'obligation': oid, 'full': oid, 'fn': sh['name'] + '::update',
                            'detail': {'message': 'generated signature `%s` differs from the trait method `%s`' % (got[0][1], dc.EXPECT_SIG[sh['macro']]), 'where': [], 'fn': sh['name']}})
    res['cmd'] = cmd + ' ; ' + (res.get('cmd') or '')
    return {'unit': u, 'res': res, 'mine': obligations, 'pre': [], 'refuted': refuted, 'fn_stats': {k: {'ms': v['ms'], 'rlimit': v['rlimit']} for k, v in res['functions'].items()},
            'assumptions': ['derive.rs: Env / MarketEnv / RngCore are opaque stand-ins; members have an uninterpreted contract (any behaviour)',
                            'syn / quote / proc_macro internals are not verified; the shapes are the finite family of tools/derive_check.py (%d shapes, 1..8 fields, both macros)' % len(dc.SHAPES)],
            'canary': {'skipped': 'the generated functions have no preconditions', 'vacuous': []}}


_skeletons = None


def load_skeletons():
    global _skeletons
    if _skeletons is None:
        try:
            _skeletons = json.load(open(os.path.join(ROOT, 'contracts', 'skeletons.json')))['units']
        except Exception:
            _skeletons = {}
    return _skeletons


def load_known():
    p = os.path.join(ROOT, 'known_findings.json')
    if not os.path.exists(p):
        return {'findings': [], 'fixed': []}
    return json.load(open(p))


_cones = {}


def global_cone(pid):
    """Functions this property's proof can depend on, ACROSS units: every function that carries one of its clauses (in any unit) and everything those functions transitively call,
    by simple name (over-approximated) - Env::step in the unit env calls OrderBook::level_2_data in the unit book.  None = could not be computed (then nothing is filtered)."""
    if pid in _cones:
        return _cones[pid]
    fns, seeds = {}, set()
    try:
        for unit in ('book', 'market', 'env', 'menv', 'py', 'agents', 'runner'):
            u = UnitRun(unit, unit + '.vc').build()
            for f in u.meta['functions']:
                fns.setdefault(f['name'], f)
            for o in u.table:
                if pid in ob.tag_props(o['tags']):
                    seeds.add(o['fn'])
    except Exception:
        _cones[pid] = None
        return None
    simple = {}
    for n in fns:
        simple.setdefault(n.split('::')[-1], set()).add(n)
    cone, work = set(seeds), list(seeds)
    while work:
        fn = work.pop()
        for tok in (fns.get(fn, {}).get('skeleton_text') or '').split():
            if tok.startswith('call:'):
                for callee in simple.get(tok[5:], ()):
                    if callee not in cone:
                        cone.add(callee)
                        work.append(callee)
    _cones[pid] = cone
    return cone


def decide_verus_leg(pid, leg, tier, seed, log):
    """-> dict(obligations=[...], refuted=[...], infra=[...], stats)"""
    u = UnitRun(leg['unit'], leg['vcfile'], leg['defines'], leg['variant']).build()
    if u.meta['warnings']:
        for w in u.meta['warnings']:
            log('warning: ' + w)
    thorough = (tier == 'thorough')
    res = u.verify(seed=0, funcs=leg.get('only_fns'), use_cache=not (thorough or NO_CACHE))
    # a front-end error that lies inside ONE contracted function (a hint or a contract names a local that was renamed, a construct the verifier does not accept) makes that
    # function a stub - contract kept, obligations not generated - and the rest of the unit is verified again; at most 4 such functions, otherwise the unit is undecided
    stubs = {}
    while res.get('frontend_error') and len(stubs) < 4:
        located = []
        fe_diags = [d for d in res['diagnostics'] if d['kind'] == 'frontend'] or res['diagnostics']
        for d in fe_diags:
            for sp in [x for x in d['spans'] if x['primary']] or d['spans']:
                fn = ob.fn_at(u.meta, sp['gen_line'])
                if fn and fn not in stubs and u.vc.fns.get(fn) is not None:
                    located.append((fn, d['message']))
        if not located:
            break
        for fn, msg in located:
            stubs.setdefault(fn, 'verifier front end: ' + msg[:160])
        log('note: front-end error inside %s: the function is emitted as a stub (its obligations are not generated) and the unit is verified again' % ', '.join(sorted({f for f, _ in located})))
        u = UnitRun(leg['unit'], leg['vcfile'], leg['defines'], leg['variant']).build(stub_fns=stubs)
        res = u.verify(seed=0, funcs=leg.get('only_fns'), use_cache=not (thorough or NO_CACHE))
    if res.get('frontend_error'):
        raise Undecided('verus front end on unit %s: %s' % (u.label, res['frontend_error']))
    fails, infra = u.failures(res)
    extra_seeds = []
    if thorough:
        # thorough: nothing from the cache, and the whole unit again under two further solver seeds derived from VERIF_SEED:
        # every seed must give the same set of refuted obligations (a proof that depends on the seed is reported as undecided)
        base_ids = sorted(x['full'] for x in fails)
        for s2 in (101 + 2 * (seed % 1000), 202 + 2 * (seed % 1000)):
            r2 = u.verify(seed=s2, funcs=leg.get('only_fns'), use_cache=False)
            if r2.get('frontend_error'):
                raise Undecided('verus front end on unit %s (seed %d): %s' % (u.label, s2, r2['frontend_error']))
            f2, i2 = u.failures(r2)
            extra_seeds.append({'seed': s2, 'verified': r2['verified'], 'errors': r2['errors'], 'smt_ms': r2['smt_ms'], 'wall_s': round(r2.get('wall_s', 0), 1)})
            if sorted(x['full'] for x in f2) != base_ids or i2:
                raise Undecided('unit %s: solver seed %d gives a different result than seed 0 (unstable proof): %s vs %s %s' % (u.label, s2, sorted(x['full'] for x in f2)[:3], base_ids[:3], i2[:2]))
    res['extra_seeds'] = extra_seeds
    tagset = set(leg.get('tags') or [pid]) if not leg.get('dep') else set()
    only = leg.get('only_fns')
    hit = lambda tags: bool(tagset & set(ob.tag_props(tags)))
    mine = [o for o in u.table if hit(o['tags']) and o['kind'] != 'requires' and (not only or o['fn'] in only)]
    pre = [o for o in u.table if hit(o['tags']) and o['kind'] == 'requires' and (not only or o['fn'] in only)]
    mine_ids = {o['id'] for o in mine}
    by_id = {o['id']: o for o in u.table}

    def serves(f):
        d = f['detail']
        o = by_id.get(f['obligation'])
        if o is None:
            return False
        if o['kind'] == 'body':
            tags = d.get('line_tags') or d.get('callee_tags') or o['tags']
            return hit(tags)
        return f['obligation'] in mine_ids
    refuted = [f for f in fails if serves(f)]
    # refuted obligations of this unit that carry the tags of OTHER properties only: this property's proof is modular over the same contracts, so it is no
    # longer established either (main() looks for a failing input of THIS property before saying anything)
    other_refuted = [f for f in fails if not serves(f) and (not only or f['fn'] in only)]
    # ... but only where this property's proof can depend on them: the functions carrying its clauses and everything they (transitively) call - a modular proof uses the
    # contracts of callees and nothing else - plus every function that can change state (`&mut`): the invariant every clause assumes must be re-established by all of them.
    # A failed proof of a read-only function outside that cone (a getter this property never calls) says nothing about this property.
    fmeta = {f['name']: f for f in u.meta['functions']}
    cone = global_cone(pid)
    outside = [] if (leg.get('dep') or cone is None) else [f for f in other_refuted if f['fn'] in fmeta and f['fn'] not in cone and fmeta[f['fn']].get('readonly')]
    if outside:
        log('note: unproved obligations in read-only functions this property does not depend on (outside its call cone) are ignored for %s: %s' % (pid, ', '.join(sorted({f['fn'] for f in outside}))))
        other_refuted = [f for f in other_refuted if f not in outside]
    # functions of this property that Verus reports as failed
    confirm = {}
    if refuted:
        # 3.2a: a refutation must be stable under two further solver seeds, otherwise the proof is brittle and the run is undecided
        bad_fns = sorted({f['fn'] for f in refuted})
        for s2 in (1 + 2 * (seed % 1000), 2 + 2 * (seed % 1000)):
            r2 = u.verify(seed=s2, funcs=bad_fns)
            if r2.get('frontend_error'):
                raise Undecided('verus front end while confirming: %s' % r2['frontend_error'])
            f2, i2 = u.failures(r2)
            ids2 = {x['full'] for x in f2}
            for f in refuted:
                confirm.setdefault(f['full'], []).append(f['full'] in ids2)
        unstable = [k for k, v in confirm.items() if not all(v)]
        if unstable:
            raise Undecided('unstable proof (fails under seed 0, passes under another seed): %s' % ', '.join(unstable))
    # 3.2b: a refutation for which no failing input is found on the real code is reported only in functions whose control-flow / call skeleton still equals the
    # baseline recorded on the unchanged tree (contracts/skeletons.json): the change is then confined to expressions and the proof text still describes the code.
    # A restructured function (extracted helper, early return, reordered or added statements) whose proof fails is undecided - the proof may simply no longer fit.
    base_sk = load_skeletons().get(leg['unit'], {})
    cur_sk = {f['name']: f.get('skeleton', 'generated') for f in u.meta['functions']}
    restructured = sorted({f['fn'] for f in refuted + other_refuted if f['fn'] and (cur_sk.get(f['fn']) != base_sk.get(f['fn']) or f.get('not_generated'))})
    for f in refuted + other_refuted:
        f['trusted_without_witness'] = f['fn'] not in restructured
    lost_hints = None
    if u.meta['warnings'] and refuted:
        # the proof text no longer matches the code: the refutation alone is not trusted.  It is reported only if the replay runner
        # then exhibits a failing input on the real code (main); otherwise the run is undecided.
        lost_hints = 'hint anchors were lost in the source (%s) and obligations then failed: the proof text no longer matches the code' % '; '.join(u.meta['warnings'])
    if infra:
        related = [i for i in infra]
        raise Undecided('; '.join(related[:5]))
    fn_stats = {}
    for o in mine:
        fs = res['functions'].get(o['fn'])
        if fs:
            fn_stats[o['fn']] = {'ms': fs['ms'], 'rlimit': fs['rlimit']}
    return {'unit': u, 'res': res, 'mine': mine, 'pre': pre, 'refuted': refuted, 'fn_stats': fn_stats, 'lost_hints': lost_hints, 'other_refuted': other_refuted, 'stubs': stubs,
            'assumptions': scan_assumptions(u.gen_lines, u.meta)}


def run_canaries(leg, pid, log, stubs=None):
    """Every contracted function of the property with `assert(false)` at entry: each must FAIL (otherwise its precondition is contradictory)."""
    u = UnitRun(leg['unit'], leg['vcfile'], leg['defines'], leg['variant'], canary=True).build(stub_fns=stubs)
    res = u.verify(seed=0, multiple_errors=2, use_cache=(os.environ.get('VERIF_TIER', '') != 'thorough' and not NO_CACHE))
    if res.get('frontend_error'):
        raise Undecided('verus front end on canary unit %s: %s' % (u.label, res['frontend_error']))
    tagset = set(leg.get('tags') or [pid])
    want = [f['name'] for f in u.meta['functions'] if f.get('canary') and tagset & set(ob.tag_props(f.get('tags') or []))]
    want += [name for (name, tags, text) in getattr(u.vc, 'corollaries', []) if tagset & set(ob.tag_props(tags))]
    hit = set()
    for d in res['diagnostics']:
        for s in d['spans']:
            if s['origin'].get('kind') == 'canary' and 'assertion failed' in d['message']:
                hit.add(s['origin'].get('fn'))
            elif '[canary]' in (s.get('text') or '') and 'assertion failed' in d['message']:
                hit.add(ob.ghost_fn_at(u.gen_lines, s['gen_line']))
    vacuous = [w for w in want if w not in hit]
    return {'expected_to_fail': len(want), 'failed_as_expected': len(want) - len(vacuous), 'vacuous': vacuous, 'wall_s': res.get('wall_s'), 'cache_hit': res.get('cache_hit')}


_ext = None
TIER = 'quick'


def build_extension():
    """cargo build -p bourse against REPO's working tree -> path of the extension module (or None)"""
    global _ext
    if _ext is not None:
        return _ext or None
    td = os.path.join(BUILD, 'pytarget')
    env = dict(os.environ, CARGO_NET_OFFLINE='true', CARGO_TARGET_DIR=td)
    p = subprocess.run(['cargo', 'build', '-p', 'bourse', '--offline', '--quiet'], cwd=REPO, capture_output=True, text=True, env=env)
    so = os.path.join(td, 'debug', 'libbourse.so')
    _ext = so if (p.returncode == 0 and os.path.exists(so)) else ''
    if not _ext:
        print('note: the extension module does not build: %s' % p.stderr[-400:], file=sys.stderr)
    return _ext or None


def run_python_bounded(pid, leg, seed):
    so = build_extension()
    if not so:
        raise Undecided('the PyO3 extension module does not build from this tree (bounded stand-in %s)' % leg['name'])
    t = time.time()
    cmd = ['/opt/veriftools/pyvenv/bin/python', os.path.join(HERE, 'py_bounded.py'), so, leg.get('mode', pid), str(seed), str(leg.get('n_thorough', leg['n']) if TIER == 'thorough' else leg['n'])]
    if leg.get('needs_repo'):
        cmd.append(REPO)
    if leg.get('needs_replay'):
        rb = build_replay()
        if not rb:
            raise Undecided('the replay runner does not build against this tree (bounded stand-in %s)' % leg['name'])
        cmd.append(rb)
    p = subprocess.run(cmd, capture_output=True, text=True)
    res = {'name': leg['name'], 'bound': leg['bound'], 'cmd': ' '.join(cmd), 'seconds': round(time.time() - t, 1), 'label': 'bounded'}
    try:
        res['output'] = json.loads(p.stdout.strip().split('\n')[-1])
    except Exception:
        res['output'] = (p.stdout + p.stderr)[-800:]
    if p.returncode == 0:
        res['status'] = 'passed'
    elif p.returncode == 1 and isinstance(res['output'], dict):
        res['status'] = 'failed'
        res['witness'] = res['output']
    else:
        raise Undecided('python bounded stand-in %s could not run: %s' % (leg['name'], (p.stdout + p.stderr)[-400:]))
    return res


def run_bounded(pid, leg, seed):
    if leg.get('engine') == 'python':
        return run_python_bounded(pid, leg, seed)
    b = build_replay()
    if not b:
        raise Undecided('the replay runner does not build against this tree (bounded stand-in %s)' % leg['name'])
    t = time.time()
    out = os.path.join(BUILD, 'bounded_%s_%s.json' % (pid, leg['name']))
    cmd = [b] + leg['args'] + ['--seed', str(seed)] + (['--out', out] if leg['args'][0] == 'search' else [])
    p = subprocess.run(cmd, capture_output=True, text=True)
    res = {'name': leg['name'], 'bound': leg['bound'], 'cmd': ' '.join(cmd), 'seconds': round(time.time() - t, 1), 'label': 'bounded'}
    try:
        res['output'] = json.loads(p.stdout)
    except Exception:
        res['output'] = p.stdout[-800:]
    if p.returncode == 0:
        res['status'] = 'passed'
    elif p.returncode == 1:
        res['status'] = 'failed'
        if os.path.exists(out):
            res['witness'] = json.load(open(out))
    else:
        raise Undecided('bounded stand-in %s: runner exit %d: %s' % (leg['name'], p.returncode, p.stderr[-300:]))
    return res


def write_replay(pid, refuted, leg_infos, extra=None):
    os.makedirs(REPLAYS, exist_ok=True)
    path = os.path.join(REPLAYS, '%s.json' % pid)
    doc = {'property': pid, 'failed_obligations': [], 'witness': None, 'note': 'obligations that are discharged on the unchanged tree and are refuted on this tree'}
    for f in refuted:
        doc['failed_obligations'].append({'obligation': f['full'], 'function': f['fn'], 'verifier_output': f['detail']})
    if extra:
        doc.update(extra)
    with open(path, 'w') as fh:
        json.dump(doc, fh, indent=1)
    return path


def main():
    ap = argparse.ArgumentParser()
    ap.add_argument('pid')
    ap.add_argument('--tier', default=os.environ.get('VERIF_TIER', 'quick'), choices=['quick', 'thorough'])
    ap.add_argument('--replay')
    ap.add_argument('--no-cache', action='store_true')
    a = ap.parse_args()
    pid = a.pid
    global NO_CACHE, TIER
    TIER = a.tier
    NO_CACHE = a.no_cache or a.tier == 'thorough'
    seed = int(os.environ.get('VERIF_SEED', '0') or 0)
    t0 = time.time()
    if pid not in PROPS:
        print('property %s is not claimed by this framework (see MANIFEST.json not_applicable)' % pid)
        return 2
    if a.replay:
        return replay_file(pid, a.replay)
    notes = []
    log = lambda m: (notes.append(m), print(m, file=sys.stderr))
    cfg = PROPS[pid]
    known = load_known()
    bounded = []
    legs = []
    kani_res = []
    # a leg that cannot be decided (front-end error, lost anchor, resource limit ...) does not stop the other legs: an execution of the real code
    # that fails (Kani harness, bounded stand-in) or a refuted obligation of another unit is still a violation; without one the run is undecided (exit 2)
    undecided = []
    undecided_units = []
    # dependency legs: a unit is verified against the CONTRACTS of its base units (their bodies are external_body there).  The proof of this property is therefore only
    # established if those base units verify too: every base unit (transitively) that is not already a leg is verified as a dependency - it contributes no obligation of its own,
    # but an unproved obligation in it makes this property undecided unless a failing input of THIS property is found on the real code.
    all_legs = list(cfg['legs'])
    have = {l['unit'] for l in all_legs if l.get('engine') == 'verus' and not l.get('only_fns')}
    work = [l for l in all_legs if l.get('engine') == 'verus']
    while work:
        l = work.pop()
        try:
            bases = [b[:-3] if b.endswith('.vc') else b for b in extract.Vc(os.path.join(ROOT, 'contracts', l['vcfile']), dict(l.get('defines') or {})).bases]
        except Exception:
            bases = []
        for b in bases:
            if b not in have:
                have.add(b)
                dep = V(b, canary=False, note='dependency of %s: verified because the units above assume its contracts' % l['unit'])
                dep['dep'] = True
                all_legs.append(dep)
                work.append(dep)
    for leg in all_legs:
        try:
            if leg['engine'] in ('replay', 'python'):
                bounded.append(run_bounded(pid, leg, seed))
            elif leg['engine'] == 'derive':
                legs.append(decide_derive_leg(pid, leg, seed, log))
            elif leg['engine'] == 'verus':
                info = decide_verus_leg(pid, leg, a.tier, seed, log)
                info['canary'] = run_canaries(leg, pid, log, stubs=info.get('stubs')) if leg.get('canary', True) else {'skipped': 'variant of a unit whose canaries run under the base unit', 'vacuous': []}
                if info['canary']['vacuous']:
                    raise Undecided('vacuity canary verified (contradictory precondition?) for: %s' % ', '.join(info['canary']['vacuous']))
                legs.append(info)
        except Undecided as e:
            undecided.append(str(e))
            if leg['engine'] == 'verus':
                undecided_units.append(leg['unit'])
    try:
        kani_res = run_kani(pid, seed, a.tier)
    except Undecided as e:
        undecided.append(str(e))
    total = sum(len(i['mine']) for i in legs) + len(kani_res)
    if total == 0 and not undecided:
        undecided.append('no obligation carries the tag of %s (vacuous check)' % pid)
    refuted = [f for i in legs for f in i['refuted']]
    for k in kani_res:
        if k['status'] == 'failed':
            for fc in k['failed_checks']:
                if kani_genuine(fc):
                    refuted.append({'obligation': 'kani/' + k['harness'], 'full': 'kani/%s|%s' % (k['harness'], fc['description']), 'fn': k['harness'],
                                    'detail': {'message': 'Kani: ' + fc['description'], 'fn': k['harness'], 'kind': k['kind'], 'bound': k.get('bound'),
                                               'where': [{'label': 'failed check', 'origin': fc['location'], 'text': fc['check'], 'primary': True}]}})
    kf = [k for k in known.get('findings', []) if k['property'] == pid]
    kf_obl = {o for k in kf for o in k['obligations']}
    new = [f for f in refuted if f['full'] not in kf_obl]
    rc = 0
    kf_report = []
    for k in kf:
        now = any(f['full'] in k['obligations'] for f in refuted)
        rep = None
        if now:
            print('KNOWN-FINDING: property=%s %s' % (pid, k['summary']))
            if k.get('replay') and build_replay():
                # re-confirm the recorded history against the real code (informational; never changes the verdict)
                p = subprocess.run([build_replay(), 'run', os.path.join(ROOT, k['replay'])], capture_output=True, text=True)
                rep = (p.returncode == 1)
        kf_report.append({'id': k['id'], 'obligations': k['obligations'], 'refuted_on_this_tree': now, 'history_reproduces_on_real_code': rep})
    bad_bounded = [b for b in bounded if b['status'] == 'failed']
    if bad_bounded and not new:
        path = os.path.join(REPLAYS, '%s.json' % pid)
        os.makedirs(REPLAYS, exist_ok=True)
        doc = {'property': pid, 'failed_obligations': [], 'bounded_failures': bad_bounded, 'witness': bad_bounded[0].get('witness'),
               'note': 'a bounded stand-in (real code, executed) failed; the function concerned is outside the deductive verifier (file I/O / serde)'}
        json.dump(doc, open(path, 'w'), indent=1)
        for b in bad_bounded:
            print('bounded stand-in %s failed: %s' % (b['name'], json.dumps(b.get('output'))[:600]))
        print('VIOLATION property=%s replay=%s' % (pid, path))
        rc = 1
    if new:
        path = write_replay(pid, new, legs)
        wit = witness_search(pid, new, a.tier, seed, path)
        if not wit and bad_bounded and bad_bounded[0].get('witness'):
            # a bounded stand-in of the same property executed the real code and failed: its input is the failing input
            doc = json.load(open(path))
            doc['witness'] = bad_bounded[0]['witness']
            doc['note'] += '; witness = the failing case of the bounded stand-in %s (an execution of the real code)' % bad_bounded[0]['name']
            json.dump(doc, open(path, 'w'), indent=1)
            wit = doc['witness']
        if not wit:
            # without a replayed failing input only refutations in functions with an unchanged skeleton (and Kani / derive results, which are about real or generated code) are reported
            trusted = [f for f in new if f.get('trusted_without_witness', True)]
            if not trusted:
                fns = sorted({f['fn'] for f in new if f['fn']})
                msg = 'obligations are refuted in %s, whose control-flow / call structure differs from the baseline the proof text was written for, and no failing input was found on the real code: the proof no longer fits the code (undecided, not an alarm)' % ', '.join(fns[:6])
                for f in new[:6]:
                    print('unproved obligation %s :: %s' % (f['full'], f['detail']['message']))
                print('UNDECIDED property=%s: %s' % (pid, msg))
                write_evidence(pid, a.tier, seed, t0, [], notes, undecided=msg)
                return 2
        lost = [i['lost_hints'] for i in legs if i.get('lost_hints') and any(f in i['refuted'] for f in new)]
        if lost and not wit:
            print('UNDECIDED property=%s: %s; no failing input was found on the real code either' % (pid, lost[0]))
            write_evidence(pid, a.tier, seed, t0, [], notes, undecided=lost[0])
            return 2
        if lost:
            print('note: %s - reported because the replay runner found a failing input on the real code' % lost[0])
        for f in new:
            print('refuted obligation %s :: %s' % (f['full'], f['detail']['message']))
            for w in f['detail']['where']:
                print('     %s %s | %s' % (w['label'] or '', w['origin'], w['text'][:140]))
        print('VIOLATION property=%s replay=%s%s' % (pid, path, '' if wit else ' no-failing-input-found'))
        rc = 1
    all_known = {o for k in known.get('findings', []) for o in k['obligations']}
    others = [f for i in legs for f in i.get('other_refuted', []) if f['full'] not in all_known]
    if others and rc == 0:
        # obligations tagged for OTHER properties are refuted in a unit this property's proof is built on: the proof of this property is not established on this
        # tree.  Whether the property itself is violated is decided by a failing input for ITS executable twin on the real code; without one the run is undecided.
        path = write_replay(pid, others, legs, extra={'note': 'obligations of the units this property is proved in are refuted on this tree; they carry the tags of other properties, so a failing input of THIS property was searched on the real code'})
        wit = witness_search(pid, others, a.tier, seed, path)
        ids = sorted({f['full'] for f in others})
        if wit:
            for f in others[:8]:
                print('refuted obligation %s :: %s (tagged for other properties)' % (f['full'], f['detail']['message']))
            print('VIOLATION property=%s replay=%s' % (pid, path))
            notes.append('violation: refuted obligations tagged for other properties + a failing input of this property found on the real code')
            write_evidence(pid, a.tier, seed, t0, legs, notes, refuted=refuted + others, new=others, known=kf_report, kf_obl=kf_obl, bounded=bounded, kani=kani_res)
            return 1
        undecided.append('the proof of %s is modular over contracts that are refuted on this tree (%s%s); no failing input of %s itself was found on the real code' % (pid, ', '.join(ids[:3]), ' ...' if len(ids) > 3 else '', pid))
    if undecided_units and rc == 0:
        # the obligations of a unit could not be generated on this tree (construct outside the extractor's grammar, contract text that no longer type-checks
        # against the code, ...).  That alone is never an alarm; but the replay runner can still look for a concrete input on which the executable twin of
        # the property fails against the real compiled code - such a witness is a violation, reported with the reason the proof could not be attempted.
        pseudo = [{'obligation': '%s/(obligations not generated)' % u, 'full': '%s/(obligations not generated: %s)' % (u, '; '.join(undecided)[:300]), 'fn': None,
                   'detail': {'message': 'the obligations of unit %s could not be generated on this tree: %s' % (u, '; '.join(undecided)[:600]), 'where': [], 'fn': None}} for u in undecided_units]
        path = write_replay(pid, pseudo, legs, extra={'note': 'no obligation could be generated for the units named below (the proof text no longer matches the code); the replay runner searched the real code for a failing input'})
        wit = witness_search(pid, pseudo, a.tier, seed, path)
        if wit:
            for f in pseudo:
                print('undecided unit %s' % f['full'][:300])
            print('VIOLATION property=%s replay=%s' % (pid, path))
            notes.append('violation found by the replay runner on the real code after the proof could not be attempted: ' + '; '.join(undecided))
            write_evidence(pid, a.tier, seed, t0, legs, notes, refuted=pseudo, new=pseudo, known=kf_report, kf_obl=kf_obl, bounded=bounded, kani=kani_res)
            return 1
    if undecided and rc == 0:
        print('UNDECIDED property=%s: %s' % (pid, '; '.join(undecided)))
        write_evidence(pid, a.tier, seed, t0, [], notes, undecided='; '.join(undecided))
        return 2
    if undecided:
        notes.append('legs left undecided on this tree (the violation above comes from the other legs): ' + '; '.join(undecided))
        print('note: undecided legs: %s' % '; '.join(undecided)[:400])
    write_evidence(pid, a.tier, seed, t0, legs, notes, refuted=refuted, new=new, known=kf_report, kf_obl=kf_obl, bounded=bounded, kani=kani_res)
    if rc == 0:
        ev = json.load(open(os.path.join(EVID, pid + '.json')))
        bd = ev['coverage'].get('bounded_stand_ins_not_counted_as_proved', [])
        print('OK property=%s obligations=%d discharged=%d units=%s kani_harnesses=%d bounded_stand_ins=%d/%d wall=%.1fs' % (
            pid, ev['coverage']['obligations'], ev['coverage']['discharged'], ','.join(i['unit'].label for i in legs), len(kani_res),
            len([b for b in bd if b['status'] == 'passed']), len(bd), time.time() - t0))
    return rc


_replay_bin = None


def build_replay():
    """Builds the replay runner against REPO's working tree (path dependencies); returns the binary path or None."""
    global _replay_bin
    if _replay_bin is not None:
        return _replay_bin or None
    d = os.path.join(BUILD, 'replay')
    os.makedirs(d, exist_ok=True)
    src = os.path.join(ROOT, 'replay')
    with open(os.path.join(d, 'Cargo.toml'), 'w') as f:
        f.write(open(os.path.join(src, 'Cargo.toml.in')).read().replace('@REPO@', REPO))
    sh(['rm', '-rf', os.path.join(d, 'src')])
    sh(['cp', '-r', os.path.join(src, 'src'), os.path.join(d, 'src')])
    if os.path.exists(os.path.join(REPO, 'Cargo.lock')):
        sh(['cp', os.path.join(REPO, 'Cargo.lock'), os.path.join(d, 'Cargo.lock')])
    env = dict(os.environ, CARGO_NET_OFFLINE='true')
    p = subprocess.run(['cargo', 'build', '--offline', '--quiet'], cwd=d, capture_output=True, text=True, env=env)
    if p.returncode != 0:
        # a lock file copied from the repository may not cover the runner's own dependencies: retry without it
        sh(['rm', '-f', os.path.join(d, 'Cargo.lock')])
        p = subprocess.run(['cargo', 'build', '--offline', '--quiet'], cwd=d, capture_output=True, text=True, env=env)
    if p.returncode != 0:
        print('note: replay runner does not build against this tree: %s' % p.stderr[-600:], file=sys.stderr)
        _replay_bin = ''
        return None
    _replay_bin = os.path.join(d, 'target', 'debug', 'bourse-replay')
    return _replay_bin


SEARCH_PROPS = {'C01', 'C02', 'C03', 'C04', 'C05', 'C06', 'C07', 'C12', 'C13'}
ENV_SEARCH_PROPS = {'C05', 'C08', 'C10', 'C11', 'C12', 'C13', 'C14'}
MARKET_SEARCH_PROPS = {'C12', 'C13', 'C14'}


def witness_search(pid, new, tier, seed, replay_path):
    """After a Verus refutation: look for a concrete failing history on the real code (never changes the verdict).
    Book-level histories for obligations of the book / market units, environment-level histories for the env units."""
    if pid in ('C09', 'C15'):
        b = build_replay()
        if not b:
            return None
        cmd = [b, 'determinism', '--seed', str(seed)] if pid == 'C09' else [b, 'shuffle-stats', '--seed', str(seed), '--steps', '200000']
        p = subprocess.run(cmd, capture_output=True, text=True)
        if p.returncode == 1:
            try:
                w = json.loads(p.stdout.strip().split('\n')[-1])
            except Exception:
                return None
            doc = json.load(open(replay_path))
            doc['witness'] = w
            doc['witness_cmd'] = ' '.join(cmd)
            doc['note'] += ('; witness = complete simulations through the real runners whose digests disagree between runs / processes / progress-bar branches' if pid == 'C09' else '; witness = the distribution of processing orders over seeded steps of the real environment leaves the concentration bound of an unbiased shuffle')
            json.dump(doc, open(replay_path, 'w'), indent=1)
            return w
        return None
    if pid in ('C16', 'C17'):
        b = build_replay()
        if not b:
            return None
        out = replay_path + '.witness'
        cmd = [b, 'agents', '--prop', pid, '--seed', str(seed), '--out', out]
        p = subprocess.run(cmd, capture_output=True, text=True)
        if p.returncode == 1 and os.path.exists(out):
            w = json.load(open(out))
            os.remove(out)
            doc = json.load(open(replay_path))
            doc['witness'] = w
            doc['witness_cmd'] = ' '.join(cmd)
            doc['note'] += '; witness = a configuration of the real agents / environment / generator on which the executable twin of the refuted clause fails'
            json.dump(doc, open(replay_path, 'w'), indent=1)
            return w
        return None
    units = {f['obligation'].split('/')[0].split('_')[0] for f in new}
    want_env = bool(units & {'env', 'menv', 'market'}) and pid in ENV_SEARCH_PROPS   # MarketEnv is built on Market: a refuted Market contract is searched through the environment too
    want_book = bool(units - {'env', 'menv'}) and pid in SEARCH_PROPS
    if pid in ('C10', 'C11', 'C14', 'C08'):
        want_env = True
    if not (want_env or want_book or pid in MARKET_SEARCH_PROPS):
        return None
    b = build_replay()
    if not b:
        return None
    out = replay_path + '.witness'
    depth, nrand, budget = (3, 4000, 150) if tier == 'quick' else (4, 40000, 900)   # the wall-clock budget only matters on a loaded machine: the searches are bounded by their counts
    cmds = []
    if want_book:
        cmd = [b, 'search', '--prop', pid, '--depth', str(depth), '--seed', str(seed), '--random', str(nrand), '--len', '60', '--budget', str(budget), '--out', out]
        # never --ties / --offgrid (and never step overrun in the environment search): inputs from the domains of the recorded known findings would
        # 'witness' those findings, not the refutation at hand; the findings are re-confirmed separately from findings/*.json
        cmds.append(cmd)
    if want_env:
        cmds.append([b, 'search', '--env', '--prop', pid, '--seed', str(seed), '--random', str(nrand), '--budget', str(budget), '--out', out])
        if pid == 'C05':
            # inside the step-overrun domain, but accepting only failures of OTHER clauses than the one the recorded finding fails ("all other guarantees continue to hold")
            cmds.append([b, 'search', '--env', '--prop', pid, '--overrun-other', '--seed', str(seed), '--random', str(nrand), '--budget', str(budget), '--out', out])
    if pid in MARKET_SEARCH_PROPS:
        # direct operations on Market<3, 2> against stand-alone books (C12 creation rule, C13 toggles incl. single books, C14 independence and all-asset queries)
        cmds.append([b, 'search', '--market', '--prop', pid, '--seed', str(seed), '--random', str(nrand), '--budget', str(budget), '--out', out])
    for cmd in cmds:
        p = subprocess.run(cmd, capture_output=True, text=True)
        if p.returncode == 1 and os.path.exists(out):
            w = json.load(open(out))
            os.remove(out)
            doc = json.load(open(replay_path))
            doc['witness'] = w
            doc['witness_cmd'] = ' '.join(cmd)
            doc['note'] += '; witness = a history on which the executable twin of the refuted clause fails when run against the real compiled code (replay: ./check %s --replay <this file>)' % pid
            with open(replay_path, 'w') as fh:
                json.dump(doc, fh, indent=1)
            return w
    return None


def replay_file(pid, path):
    """Re-executes the witness of a replay file against the real code; prints the failed obligations it carries."""
    doc = json.load(open(path))
    for f in doc.get('failed_obligations', []):
        print('failed obligation: %s (%s)' % (f['obligation'], f['verifier_output'].get('message')))
    if doc.get('witness') or doc.get('history'):
        b = build_replay()
        if not b:
            print('replay runner does not build')
            return 2
        p = subprocess.run([b, 'run', path], capture_output=True, text=True)
        print(p.stdout)
        return 1 if p.returncode == 1 else 0
    if doc.get('bounded_failures'):
        # the violation was an execution of the real code by a bounded stand-in (CPython twin, determinism, derive twin, statistics, snapshot round trips): run that stand-in again
        rc = 0
        seed = int(os.environ.get('VERIF_SEED', '0') or 0)
        for bf in doc['bounded_failures']:
            leg = next((l for l in PROPS[pid]['legs'] if l.get('name') == bf.get('name')), None)
            if leg is None:
                print('bounded stand-in %s is no longer part of the check of %s' % (bf.get('name'), pid))
                continue
            try:
                r = run_bounded(pid, leg, seed)
            except Undecided as e:
                print('bounded stand-in %s could not be re-run: %s' % (leg['name'], e))
                return 2
            print('bounded stand-in %s re-executed on the real code: %s %s' % (leg['name'], r['status'], json.dumps(r.get('output'))[:800]))
            if r['status'] == 'failed':
                rc = 1
        return rc
    print('no failing input recorded (no-failing-input-found): the replay file carries the verifier output only')
    return 1 if doc.get('failed_obligations') else 0


def write_evidence(pid, tier, seed, t0, legs, notes, refuted=(), new=(), undecided=None, known=(), kf_obl=(), bounded=(), kani=()):
    os.makedirs(EVID, exist_ok=True)
    ref_ids = {f['obligation'] for f in refuted}
    # obligations that only fail through a listed known finding are reported apart and not counted as proof obligations
    kf_ids = {f['obligation'] for f in refuted if f['full'] in kf_obl}
    new_ids = {f['obligation'] for f in new}
    kf_only = kf_ids - new_ids
    obligations = sum(len([o for o in i['mine'] if o['id'] not in kf_only]) for i in legs)
    discharged = obligations - len([1 for i in legs for o in i['mine'] if o['id'] in new_ids])
    # Kani: complete (loop-free, full-domain) harnesses are proof obligations; bounded ones are listed apart and never counted as proved
    kcomplete = [k for k in kani if k['kind'] == 'complete' and ('kani/' + k['harness']) not in kf_only]
    kbounded = [k for k in kani if k['kind'] == 'bounded']
    obligations += len(kcomplete)
    discharged += len([k for k in kcomplete if k['status'] == 'successful'])
    bounded = list(bounded) + [{'name': 'kani/' + k['harness'], 'label': 'bounded', 'bound': k['bound'], 'claim': k['text'], 'status': {'successful': 'passed', 'failed': 'failed'}.get(k['status'], 'undecided'),
                                'seconds': k['seconds'], 'checks': k['checks'], 'cmd': k['cmd'], 'result_from_cache': k.get('result_from_cache')} for k in kbounded]
    samples = []
    fns = {}
    assumptions = []
    units = []
    rules = []
    for i in legs:
        u = i['unit']
        for o in i['mine']:
            if o.get('explicit') and len(samples) < 12:
                samples.append({'obligation': o['id'], 'clause': o['text'][:400], 'tags': o['tags'], 'status': 'refuted' if o['id'] in ref_ids else 'discharged'})
        for o in i['mine']:
            fns.setdefault(o['fn'], 0)
            fns[o['fn']] += 1
        assumptions.extend(i['assumptions'])
        units.append({'unit': u.label, 'generated_file': os.path.relpath(u.rs, ROOT), 'sha256': u.meta['sha256'], 'sources': u.meta['sources'], 'verus_cmd': i['res'].get('cmd'),
                      'functions_verified_in_unit': i['res']['verified'], 'errors_in_unit': i['res']['errors'], 'smt_ms': i['res']['smt_ms'], 'wall_s': round(i['res'].get('wall_s', 0), 1),
                      'result_from_cache': bool(i['res'].get('cache_hit')), 'further_solver_seeds': i['res'].get('extra_seeds', []), 'cache_key': 'sha256 of generated unit text + seed + rlimit + verus version',
                      'canaries': i.get('canary'), 'preconditions_checked_at_call_sites': len(i['pre']),
                      'per_function_solver': i['fn_stats'], 'dropped_items_not_under_contract': u.meta['dropped']})
        rc = {}
        for r in u.meta['rules']:
            rc.setdefault(r['rule'], []).append('%s:%s %s' % (r['file'], r['line'], r['what']))
        rules.append({'unit': u.label, 'rewrite_rule_applications': {k: {'count': len(v), 'examples': v[:6]} for k, v in rc.items()}})
    for k in kani:
        if len(samples) < 16:
            samples.append({'obligation': 'kani/' + k['harness'], 'clause': k['text'], 'kind': k['kind'], 'status': k['status']})
    only_bounded = (obligations == 0 and bounded)
    ev = {
        'property_id': pid, 'tier': tier, 'seed': seed, 'level': 'other' if (undecided or only_bounded) else 'proof',
        'coverage': {
            'obligations': obligations, 'discharged': discharged,
            'checker_cmd': '; '.join([x['verus_cmd'] or '' for x in units] + sorted({k['cmd'] for k in kani})) or 'none',
            'kani_harnesses': [{'harness': k['harness'], 'kind': k['kind'], 'claim': k['text'], 'status': k['status'], 'seconds': k['seconds'], 'cbmc_checks': k['checks'], 'stubs': sorted(set(k.get('stubs') or [])),
                                'failed_checks': k['failed_checks'], 'result_from_cache': k.get('result_from_cache')} for k in kani],
            'trusted_base': sorted(set(assumptions)) + TRUSTED_ALWAYS,
            'samples': samples or [{'note': 'no obligations (undecided run)'}],
            'functions_under_contract': fns,
            'units': units, 'rewrite_rules': rules,
            'refuted_obligations': sorted({f['full'] for f in refuted}), 'new_refutations': sorted({f['full'] for f in new}),
            'bounded_stand_ins_not_counted_as_proved': list(bounded),
            'known_findings': list(known), 'obligations_refuted_by_known_findings_not_counted': sorted(kf_only),
            'back_end': 'Verus %s (Z3)' % verus_version() + ('; Kani/CBMC %s' % kani_version() if kani else ''),
            'explanation': undecided or ('bounded Kani harnesses on the real agent code only (labelled bounded, nothing is counted as proved): every callee of `update` is replaced by a recording stub that is its contract, one trader, symbolic generator' if only_bounded
                                         else 'every obligation tagged %s in the generated units was discharged by Verus (and every complete Kani harness by CBMC) on source taken from the working tree on this run' % pid),
        },
        'assumptions': TRUSTED_ALWAYS + notes,
        'wall_s': round(time.time() - t0, 2),
        'violations': len({f['obligation'] for f in new}) + len([b for b in bounded if b['status'] == 'failed']),
    }
    with open(os.path.join(EVID, pid + '.json'), 'w') as f:
        json.dump(ev, f, indent=1)


TRUSTED_ALWAYS = [
    'soundness of Verus / Z3; rustc 1.98.1 (Verus) agrees with the toolchain that builds /repo on the semantics of the extracted functions',
    'rewrite rules R1-R14 of DESIGN.md 3.1 (each application listed under coverage.rewrite_rules)',
    'vstd specifications of Vec, BTreeMap, Option, Result, integer conversions',
]

if __name__ == '__main__':
    sys.exit(main())
