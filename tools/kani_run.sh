#!/bin/bash
# kani_run.sh <repo> <builddir> <harness> [extra cargo-kani args]: runs one harness of /verif/kani against <repo>; prints the tail of the log
REPO=$1; B=$2; H=$3; shift 3
mkdir -p $B
sed "s#@REPO@#$REPO#" /verif/kani/Cargo.toml.in > $B/Cargo.toml
rm -rf $B/src; cp -r /verif/kani/src $B/src
[ -f $REPO/Cargo.lock ] && cp $REPO/Cargo.lock $B/Cargo.lock
cd $B && CARGO_NET_OFFLINE=true cargo kani -Z stubbing --harness $H "$@" 2>&1
