#!/usr/bin/env python3
"""Records the control-flow / call skeleton of every extracted function on the UNCHANGED tree (contracts/skeletons.json, committed).
A check trusts a refutation without a replayed failing input only in functions whose skeleton still equals this baseline (DESIGN.md 3.2b).
Re-run after a `fix:` commit in /repo or when a unit gains functions:  python3 tools/mkskeletons.py"""
import json, os, sys, subprocess
sys.path.insert(0, os.path.dirname(os.path.abspath(__file__)))
import extract
ROOT = os.path.dirname(os.path.dirname(os.path.abspath(__file__)))
REPO = os.environ.get('REPO', '/repo')
assert subprocess.run(['git', '-C', REPO, 'status', '--porcelain', '--untracked-files=no'], capture_output=True, text=True).stdout.strip() == '', 'the repository has uncommitted changes'
out = {'repo_commit': subprocess.run(['git', '-C', REPO, 'rev-parse', 'HEAD'], capture_output=True, text=True).stdout.strip(), 'units': {}}
for unit in ('book', 'market', 'env', 'menv', 'py', 'agents'):
    rs, meta = extract.build_unit(REPO, os.path.join(ROOT, 'contracts', unit + '.vc'), '/tmp/mkskeletons_build')
    out['units'][unit] = {f['name']: f.get('skeleton', 'generated') for f in meta['functions']}
    for f in meta.get('base_functions', []):
        out['units'].setdefault(f['base'], {}).setdefault(f['name'], f.get('skeleton', 'generated'))
json.dump(out, open(os.path.join(ROOT, 'contracts', 'skeletons.json'), 'w'), indent=1, sort_keys=True)
print({u: len(v) for u, v in out['units'].items()})
