#!/opt/veriftools/pyvenv/bin/python
"""Bounded stand-in for the part of C18 / C19 that no contract reaches: the compiled extension module under CPython.

usage: py_bounded.py <path to libbourse.so> <C18|C18twin|C19> <seed> [n] [replay binary]
Loads the real extension module (built from the working tree by the caller), drives it with seeded random call sequences and
compares what comes back with values recomputed independently in Python from get_orders() / get_trades() (C19: dictionary keys
and series, observation arrays, history getters) and with the documented encodings and error behaviour (C18).
Prints one JSON object; exit 0 = nothing found, 1 = a disagreement (first one reported with the call sequence that produced it)."""
import importlib.util
import json
import os
import random
import shutil
import sys
import tempfile


def load(so):
    d = tempfile.mkdtemp(prefix='bourse_mod_')
    shutil.copy(so, os.path.join(d, 'core.so'))
    spec = importlib.util.spec_from_file_location('core', os.path.join(d, 'core.so'))
    m = importlib.util.module_from_spec(spec)
    spec.loader.exec_module(m)
    return m, d


def active(orders, bid):
    return [o for o in orders if o[0] == bid and o[1] == 1]


def l2_from_orders(orders, tick, levels=10):
    """documented level-2 quantities recomputed from the order tuples (side, status, arr, end, vol, start_vol, price, trader, id)"""
    b, a = active(orders, True), active(orders, False)
    bid = max([o[6] for o in b], default=0)
    ask = min([o[6] for o in a], default=2 ** 32 - 1)
    bv, av = sum(o[4] for o in b), sum(o[4] for o in a)
    out = {'bid_price': bid, 'ask_price': ask, 'bid_vol': bv, 'ask_vol': av}
    for i in range(levels):
        pb, pa = bid - i * tick, ask + i * tick
        out['bid_vol_%d' % i] = sum(o[4] for o in b if o[6] == pb) if b else 0
        out['n_bid_%d' % i] = sum(1 for o in b if o[6] == pb) if b else 0
        out['ask_vol_%d' % i] = sum(o[4] for o in a if o[6] == pa) if a else 0
        out['n_ask_%d' % i] = sum(1 for o in a if o[6] == pa) if a else 0
    return out


def expected_l2_array(tv, q):
    arr = [tv, q['bid_price'], q['ask_price'], q['bid_vol'], q['ask_vol']]
    for i in range(10):
        arr += [q['bid_vol_%d' % i], q['n_bid_%d' % i], q['ask_vol_%d' % i], q['n_ask_%d' % i]]
    return arr


def check_c19(core, rng, n):
    import numpy as np
    fails = []
    for k in range(n):
        tick = rng.choice([1, 2, 5])
        seed = rng.randrange(10 ** 6)
        numpy_env = (k % 2 == 1)
        env = core.StepEnvNumpy(seed, 0, tick, 1000) if numpy_env else core.StepEnv(seed, 0, tick, 1000)
        # where the book lives: mid-range, at the bottom of the price range (bids down to price 0, so that published bid levels run past zero) or at its top
        zone = ('mid', 'mid', 'low', 'high')[(k // 2) % 4]
        top = (2 ** 32 - 1) // tick - 14

        def pick_price(bid):
            if zone == 'low':
                return rng.randrange(0 if bid else 1, 12) * tick
            if zone == 'high':
                return (top + rng.randrange(0, 12)) * tick
            return (40 + rng.randrange(0, 12)) * tick
        calls = []
        rows = []      # per step: documented quantities from the live orders
        tvs = []
        ntr = 0
        for step in range(rng.randrange(3, 9)):
            # a step carries new limit orders, cancellations of earlier orders, (StepEnv) modifications - or only cancellations, or nothing at all
            kind = rng.choice(['mixed', 'mixed', 'mixed', 'cancels_only', 'empty', 'instructions', 'reprice_only'])
            n_known = len(env.get_orders())
            if kind in ('mixed', 'instructions'):
                batch = []
                for _ in range(rng.randrange(0, 7)):
                    bid = rng.random() < 0.5
                    vol = rng.randrange(1, 30)
                    price = pick_price(bid)
                    batch.append((bid, vol, rng.randrange(5), price))
                    calls.append(('limit', bid, vol, price))
                if numpy_env and kind == 'instructions' and (batch or n_known):
                    acts = [(1, b, v, t, p, 0) for (b, v, t, p) in batch]
                    for _ in range(rng.randrange(0, 3)):
                        if n_known:
                            oid = rng.randrange(n_known)
                            acts.append((2, False, 0, 0, 0, oid)); calls.append(('cancel', oid))
                    acts.append((0, False, 0, 0, 0, 0))
                    rng.shuffle(acts)
                    env.submit_instructions((np.array([a[0] for a in acts], dtype=np.uint32), np.array([a[1] for a in acts]), np.array([a[2] for a in acts], dtype=np.uint32),
                                             np.array([a[3] for a in acts], dtype=np.uint32), np.array([a[4] for a in acts], dtype=np.uint32), np.array([a[5] for a in acts], dtype=np.uint64)))
                else:
                    for (bid, vol, tr, price) in batch:
                        if numpy_env:
                            env.submit_limit_orders((np.array([bid]), np.array([vol], dtype=np.uint32), np.array([tr], dtype=np.uint32), np.array([price], dtype=np.uint32)))
                        else:
                            env.place_order(bid, vol, tr, price)
            if kind in ('mixed', 'cancels_only') and n_known:
                ids = [rng.randrange(n_known) for _ in range(rng.randrange(1, 4))] if (kind == 'cancels_only' or rng.random() < 0.5) else []
                for oid in ids:
                    calls.append(('cancel', oid))
                if ids and numpy_env:
                    env.submit_cancellations(np.array(ids, dtype=np.uint64))
                else:
                    for oid in ids:
                        env.cancel_order(oid)
            if kind == 'reprice_only' and n_known:
                # a step that only moves resting volume between levels of a side: touch price and total volume may stay the same while the per-level slots change
                live = [o for o in env.get_orders() if o[1] == 1]
                for o in rng.sample(live, min(len(live), rng.randrange(1, 3))):
                    newp = pick_price(bool(o[0]))
                    # only moves that cannot cross the book (so that nothing trades): bids stay below every ask, asks above every bid
                    asks = [x[6] for x in live if not x[0]]
                    bids = [x[6] for x in live if x[0]]
                    if (o[0] and asks and newp >= min(asks)) or (not o[0] and bids and newp <= max(bids)):
                        continue
                    if numpy_env:
                        # the numpy class has no modify: cancel and re-enter the same volume at the new price
                        env.submit_instructions((np.array([2, 1], dtype=np.uint32), np.array([False, bool(o[0])]), np.array([0, o[4]], dtype=np.uint32),
                                                 np.array([0, o[7]], dtype=np.uint32), np.array([0, newp], dtype=np.uint32), np.array([o[8], 0], dtype=np.uint64)))
                        calls.append(('cancel+reenter', o[8], newp))
                    else:
                        env.modify_order(o[8], newp, None)
                        calls.append(('modify', o[8], newp, None))
            if kind == 'mixed' and n_known and not numpy_env and rng.random() < 0.4:
                oid = rng.randrange(n_known)
                np_, nv = rng.choice([None, pick_price(bool(env.get_orders()[oid][0]))]), rng.choice([None, rng.randrange(1, 30)])
                calls.append(('modify', oid, np_, nv))
                env.modify_order(oid, np_, nv)
            env.step()
            calls.append(('step',))
            orders = env.get_orders()
            trades = env.get_trades()
            q = l2_from_orders(orders, tick)
            rows.append(q)
            tv = sum(t[3] for t in trades[ntr:])
            ntr = len(trades)
            tvs.append(tv)
            l1 = list(env.level_1_data() if numpy_env else env.level_1_data_array())
            l2 = list(env.level_2_data() if numpy_env else env.level_2_data_array())
            e2 = expected_l2_array(tv, q)
            if [int(x) for x in l2] != e2:
                bad = [i for i in range(min(len(l2), 45)) if int(l2[i]) != e2[i]] if len(l2) == 45 else 'length %d' % len(l2)
                fails.append({'what': 'level-2 observation array differs from the documented layout at indices %s' % bad, 'env': type(env).__name__, 'calls': calls})
                break
            if [int(x) for x in l1] != e2[:9]:
                fails.append({'what': 'level-1 observation array %s differs from the documented layout %s' % ([int(x) for x in l1], e2[:9]), 'env': type(env).__name__, 'calls': calls})
                break
            md = env.get_market_data()
            want_keys = {'bid_price', 'ask_price', 'bid_vol', 'ask_vol', 'trade_vol'} | {'%s_%d' % (p, i) for p in ('bid_vol', 'ask_vol', 'n_bid', 'n_ask') for i in range(10)}
            if set(md.keys()) != want_keys:
                fails.append({'what': 'market-data dictionary keys differ from the documented set: %s' % sorted(set(md.keys()) ^ want_keys), 'env': type(env).__name__, 'calls': calls})
                break
            for key in sorted(want_keys):
                series = [int(x) for x in md[key]]
                want = tvs if key == 'trade_vol' else [r[key] for r in rows]
                if series != want:
                    fails.append({'what': "market-data dictionary['%s'] = %s, the documented quantity over the steps is %s" % (key, series, want), 'env': type(env).__name__, 'calls': calls})
                    break
            if fails:
                break
            if not numpy_env:
                pr, vo = env.get_prices(), env.get_volumes()
                if [int(x) for x in pr[0]] != [r['bid_price'] for r in rows] or [int(x) for x in pr[1]] != [r['ask_price'] for r in rows] \
                        or [int(x) for x in vo[0]] != [r['bid_vol'] for r in rows] or [int(x) for x in vo[1]] != [r['ask_vol'] for r in rows]:
                    fails.append({'what': 'get_prices / get_volumes are not (bid series, ask series)', 'env': 'StepEnv', 'calls': calls})
                    break
        if fails:
            break
    return fails


def check_c18(core, rng, n):
    """encodings, error behaviour and internal consistency of the Python classes (the comparison with the Rust core driven by the same
    sequence is done by the caller through the replay runner's `dump`)"""
    fails = []
    for k in range(n):
        tick = rng.choice([1, 2])
        ob = core.OrderBook(0, tick)
        calls = []
        t = 0
        for _ in range(rng.randrange(5, 40)):
            t += 1
            ob.set_time(t)
            r = rng.random()
            n_orders = len(ob.get_orders())
            if r < 0.5:
                bid, vol = rng.random() < 0.5, rng.randrange(1, 20)
                price = rng.choice([None, (20 + rng.randrange(0, 6)) * tick, (20 + rng.randrange(0, 6)) * tick + (1 if tick > 1 else 0)])
                before = (ob.get_orders(), ob.get_trades(), ob.bid_ask())
                calls.append(('place_order', bid, vol, price))
                try:
                    oid = ob.place_order(bid, vol, 1, price)
                    if price is not None and price % tick != 0:
                        fails.append({'what': 'off-grid price %d accepted' % price, 'calls': calls})
                    if oid != n_orders:
                        fails.append({'what': 'order id %d is not the next dense id %d' % (oid, n_orders), 'calls': calls})
                    rec = ob.get_orders()[oid]
                    if rec[0] is not bid or rec[8] != oid or rec[5] != vol:
                        fails.append({'what': 'order record %s does not carry side=%s id=%d start_vol=%d in the documented positions' % (rec, bid, oid, vol), 'calls': calls})
                except ValueError:
                    if price is None or price % tick == 0:
                        fails.append({'what': 'on-grid price raised ValueError', 'calls': calls})
                    if (ob.get_orders(), ob.get_trades(), ob.bid_ask()) != before:
                        fails.append({'what': 'ValueError left the object changed', 'calls': calls})
            elif r < 0.65 and n_orders:
                i = rng.randrange(n_orders)
                calls.append(('cancel_order', i))
                ob.cancel_order(i)
                if ob.order_status(i) not in (0, 1, 2, 3, 4) or ob.order_status(i) != ob.get_orders()[i][1]:
                    fails.append({'what': 'order_status disagrees with the status field of get_orders()', 'calls': calls})
            elif r < 0.8 and n_orders:
                i = rng.randrange(n_orders)
                np_, nv = rng.choice([None, (20 + rng.randrange(0, 6)) * tick]), rng.choice([None, rng.randrange(1, 20)])
                calls.append(('modify_order', i, np_, nv))
                ob.modify_order(i, np_, nv)
            elif r < 0.85:
                calls.append(('disable_trading',)); ob.disable_trading()
            elif r < 0.92:
                calls.append(('enable_trading',)); ob.enable_trading()
            # transparency of the getters: everything is recomputable from the order tuples
            orders = ob.get_orders()
            q = l2_from_orders(orders, tick, 1)
            got = (ob.bid_ask(), ob.bid_vol(), ob.ask_vol(), ob.best_bid_vol(), ob.best_ask_vol(), ob.best_bid_vol_and_orders(), ob.best_ask_vol_and_orders())
            want = ((q['bid_price'], q['ask_price']), q['bid_vol'], q['ask_vol'], q['bid_vol_0'], q['ask_vol_0'], (q['bid_vol_0'], q['n_bid_0']), (q['ask_vol_0'], q['n_ask_0']))
            if got != want:
                fails.append({'what': 'getters %s differ from the values recomputed from get_orders() %s' % (got, want), 'calls': calls})
            for tr in ob.get_trades():
                p = orders[tr[5]]
                if tr[1] is not p[0] or orders[tr[4]][0] is p[0]:
                    fails.append({'what': 'trade %s: side is not the passive order\'s side (True = bid)' % (tr,), 'calls': calls})
            if fails:
                return fails
        for bad in (-1, 2 ** 32, 2 ** 70):
            before = ob.get_orders()
            try:
                ob.place_order(True, bad, 1, None)
                fails.append({'what': 'out-of-range volume %d accepted' % bad, 'calls': calls})
            except OverflowError:
                if ob.get_orders() != before:
                    fails.append({'what': 'OverflowError left the object changed', 'calls': calls})
            except Exception as e:      # noqa
                fails.append({'what': 'out-of-range integer raised %s instead of OverflowError' % type(e).__name__, 'calls': calls})
        if fails:
            return fails
    return fails


def _guard(f):
    """a panic inside the extension module surfaces as pyo3's PanicException (a BaseException)"""
    try:
        return f(), None
    except ValueError:
        return 'ValueError', None
    except OverflowError:
        return 'OverflowError', None
    except BaseException as e:      # noqa
        return 'panic', type(e).__name__


def _tup(x):
    return [list(r) for r in x]


def book_obs_py(ob):
    orders = ob.get_orders()
    return {'orders': _tup(orders), 'trades': _tup(ob.get_trades()), 'bid_ask': list(ob.bid_ask()), 'bid_vol': ob.bid_vol(), 'ask_vol': ob.ask_vol(),
            'best_bid_vol': ob.best_bid_vol(), 'best_ask_vol': ob.best_ask_vol(), 'best_bid_vol_and_orders': list(ob.best_bid_vol_and_orders()),
            'best_ask_vol_and_orders': list(ob.best_ask_vol_and_orders()), 'statuses': [ob.order_status(i) for i in range(len(orders))]}


def env_obs_py(env):
    orders = env.get_orders()
    ints = lambda a: [int(x) for x in a]      # noqa
    pair = lambda p: [ints(p[0]), ints(p[1])]      # noqa
    return {'orders': _tup(orders), 'trades': _tup(env.get_trades()), 'time': env.time, 'bid_ask': list(env.bid_ask), 'bid_vol': env.bid_vol, 'ask_vol': env.ask_vol,
            'best_bid_vol': env.best_bid_vol, 'best_ask_vol': env.best_ask_vol, 'best_bid_vol_and_orders': list(env.best_bid_vol_and_orders),
            'best_ask_vol_and_orders': list(env.best_ask_vol_and_orders), 'trade_vol': env.trade_vol, 'statuses': [env.order_status(i) for i in range(len(orders))],
            'prices': pair(env.get_prices()), 'volumes': pair(env.get_volumes()), 'touch_volumes': pair(env.get_touch_volumes()),
            'touch_order_counts': pair(env.get_touch_order_counts()), 'trade_volumes': ints(env.get_trade_volumes())}


def _norm(v):
    """JSON round trip: tuples -> lists, bools stay bools (True = bid must not compare equal to 1)"""
    return json.loads(json.dumps(v))


def _same(a, b):
    if isinstance(a, bool) != isinstance(b, bool):
        return False
    if isinstance(a, list) and isinstance(b, list):
        return len(a) == len(b) and all(_same(x, y) for x, y in zip(a, b))
    if isinstance(a, dict) and isinstance(b, dict):
        return a.keys() == b.keys() and all(_same(a[k], b[k]) for k in a)
    return a == b


def gen_call(rng, kind, tick, known, extreme, narrow, top=0):
    """one call over the non-numpy API; `known` = order records as Python sees them (for ids / current prices / volumes).
    narrow scripts keep every bid at one price and every ask one tick above it, with occasional small crossing orders: queue position
    within a level (and so every priority-losing or -keeping modification) becomes visible in the trades"""
    r = rng.random()

    def grid(bid=None):
        if narrow and bid is not None:
            cross = rng.random() < 0.3
            return (top + (20 if (bid != cross) else 21)) * tick
        return (top + 20 + rng.randrange(0, 5)) * tick
    if r < 0.5 or not known:
        bid = rng.random() < 0.5
        vol = rng.randrange(1, 6) if narrow else rng.randrange(1, 20)
        c = rng.random()
        if c < 0.12:
            price = None
        elif c < 0.2 and tick > 1:
            price = grid() + 1                      # off the grid: ValueError, object unchanged
        elif c < 0.24 and extreme:
            price = rng.choice([0, tick, 2 * tick])  # lowest representable prices
        else:
            price = grid(bid)
        if extreme and rng.random() < 0.04:
            vol = 0
        return ['place_order', bid, vol, rng.randrange(4), price]
    if r < 0.62:
        return ['cancel_order', rng.randrange(len(known))]
    if r < 0.85:
        live = [i for i, o in enumerate(known) if o[1] == 1]
        i = rng.choice(live) if live and rng.random() < 0.8 else rng.randrange(len(known))
        o = known[i]
        c = rng.random()
        np_ = None if c < 0.35 else (o[6] if c < 0.7 else grid(o[0]))     # None / the current price restated / another price
        c = rng.random()
        nv = None if c < 0.3 else (o[4] if c < 0.45 else (max(1, o[4] - rng.randrange(1, 4)) if c < 0.7 else rng.randrange(1, 25)))
        if extreme and rng.random() < 0.08:
            nv = 0
        return ['modify_order', i, np_, nv]
    if r < 0.9:
        return ['disable_trading']
    return ['enable_trading']


def check_c18_twin(core, rng, n, replay_bin):
    """The same call script on the compiled extension module and on the Rust core (replay runner `pytwin`): every return value and the
    full observable state after every call must agree."""
    import subprocess
    fails = []
    for k in range(n):
        kind = 'book' if k % 2 == 0 else 'env'
        tick = rng.choice([1, 2, 5])
        extreme = (k % 4) >= 2
        narrow = (k % 6) >= 3
        # one script in eight lives near the top of the 32-bit price range, one in eight starts with the clock just below a multiple of 2^32
        top = ((2 ** 32 - 1) // tick - 60) if k % 8 == 5 else 0
        trading0 = rng.random() < 0.85
        script = {'kind': kind, 'tick': tick, 'start_time': (2 ** 32 - rng.randrange(1, 30)) if k % 8 == 3 else rng.choice([0, 0, 7, 1000]), 'trading': trading0, 'seed': rng.randrange(2 ** 40), 'step_size': rng.choice([1000, 1000, 50, 64]), 'calls': []}
        obj = core.OrderBook(script['start_time'], tick, trading0) if kind == 'book' else core.StepEnv(script['seed'], script['start_time'], tick, script['step_size'], trading0)
        obs = book_obs_py if kind == 'book' else env_obs_py
        rec = [{'ret': None, 'obs': _norm(obs(obj))}]
        t = script['start_time']
        dead = False
        for j in range(rng.randrange(10, 60)):
            if kind == 'book':
                if j % 2 == 0:
                    t += rng.randrange(1, 4)      # the documented usage: the clock advances between arrivals
                    c = ['set_time', t]
                else:
                    c = gen_call(rng, kind, tick, rec[-1]['obs']['orders'], extreme, narrow, top)
            else:
                c = ['step'] if rng.random() < 0.22 else gen_call(rng, kind, tick, rec[-1]['obs']['orders'], extreme, narrow, top)
            script['calls'].append(c)
            ret, exc = _guard(lambda: getattr(obj, c[0])(*c[1:]))
            if ret == 'panic':
                rec.append({'ret': 'panic', 'obs': None})
                dead = True
                break
            o, exc = _guard(lambda: obs(obj))
            if o == 'panic':
                rec.append({'ret': _norm(ret), 'obs': 'panic'})
                dead = True
                break
            rec.append({'ret': _norm(ret), 'obs': _norm(o)})
        if kind == 'env' and not dead:
            script['calls'].append(['step'])
            ret, exc = _guard(lambda: obj.step())
            rec.append({'ret': _norm(ret), 'obs': _norm(obs(obj))})
        d = tempfile.mkdtemp(prefix='pytwin_')
        try:
            sp = os.path.join(d, 'script.json')
            json.dump(script, open(sp, 'w'))
            p = subprocess.run([replay_bin, 'pytwin', sp], capture_output=True, text=True)
        finally:
            shutil.rmtree(d, ignore_errors=True)
        if p.returncode != 0:
            if dead:
                continue          # the core itself aborts on this script: both sides agree that it does (not a transparency question)
            fails.append({'what': 'the Rust core aborts on a script the Python class executes: %s' % p.stderr[-200:], 'script': script})
            break
        if dead:
            fails.append({'what': 'the Python class raises a panic on call %d (%s) which the Rust core executes normally' % (len(rec) - 1, script['calls'][len(rec) - 2]), 'script': script})
            break
        want = json.loads(p.stdout)
        for i, (a, b) in enumerate(zip(rec, want)):
            if not _same(a['ret'], b['ret']):
                fails.append({'what': 'call %d %s returns %s from Python and %s from the Rust core' % (i, script['calls'][i - 1] if i else 'constructor', a['ret'], b['ret']), 'script': script})
                break
            diff = [key for key in b['obs'] if not _same(a['obs'].get(key), b['obs'][key])]
            if diff:
                key = diff[0]
                fails.append({'what': 'after call %d %s the Python class shows %s = %s, the Rust core driven by the same calls %s' % (i, script['calls'][i - 1] if i else 'constructor', key,
                                      json.dumps(a['obs'].get(key))[:300], json.dumps(b['obs'][key])[:300]), 'differing_views': diff, 'script': script})
                break
        if fails:
            break
    return fails


def check_c19_frames(repo):
    """Static conformance of the two Python data-frame helpers (pandas is not installed, so they cannot be executed): the `columns` list of each helper
    against the field order of the Rust record it names - `cast_order` / `cast_trade` in rust/src/types.rs, whose tuple layout the Verus unit `py` proves.
    Column k must be named after field k (documented short names: t -> time, active_order_id -> active_id, passive_order_id -> passive_id)."""
    import ast
    import re
    fails = []
    src = open(os.path.join(repo, 'src', 'bourse', 'data_processing.py')).read()
    # the field order is read from the CONTRACT (contracts/py.vc: cast_trade_spec / cast_order_spec), which the unit py proves the repository's cast_trade / cast_order equal to -
    # not from the shape of the Rust source, which a refactoring may change freely
    vc = open(os.path.join(os.path.dirname(os.path.dirname(os.path.abspath(__file__))), 'contracts', 'py.vc')).read()
    short = {'t': 'time', 'active_order_id': 'active_id', 'passive_order_id': 'passive_id'}

    def spec_fields(fn, var):
        m = re.search(r'spec fn %s\(.*?\n\}' % fn, vc, re.S)
        if not m:
            return None
        out = []
        for x in re.findall(r'\b%s\.(\w+)' % var, m.group(0)):
            if x not in out:
                out.append(x)
        return [short.get(x, x) for x in out]

    want = {'trades_to_dataframe': spec_fields('cast_trade_spec', 'trade'), 'orders_to_dataframe': spec_fields('cast_order_spec', 'order')}
    if any(v is None or len(v) < 5 for v in want.values()):
        return 'undecided: cannot read the documented field order from contracts/py.vc'
    tree = ast.parse(src)
    seen = set()
    for node in ast.walk(tree):
        if isinstance(node, ast.FunctionDef) and node.name in want:
            seen.add(node.name)
            cols = None
            for st in ast.walk(node):
                if isinstance(st, ast.Assign) and any(isinstance(t, ast.Name) and t.id == 'columns' for t in st.targets) and isinstance(st.value, ast.List):
                    cols = [e.value for e in st.value.elts if isinstance(e, ast.Constant)]
            if want[node.name] is None:
                fails.append({'what': 'cannot read the field order of the Rust record for %s from rust/src/types.rs' % node.name})
            elif cols is None:
                return 'undecided: %s no longer builds its column names as a literal `columns = [...]` list' % node.name
            elif cols != want[node.name]:
                bad = [(k, c, w) for k, (c, w) in enumerate(zip(cols, want[node.name])) if c != w]
                fails.append({'what': '%s names its columns %s; the record it receives holds, in order, %s (first difference: column %s)' % (node.name, cols, want[node.name], bad[0] if bad else 'length')})
    for fn in want:
        if fn not in seen:
            return 'undecided: helper %s not found in src/bourse/data_processing.py' % fn
    return fails


def main():
    so, prop, seed = sys.argv[1], sys.argv[2], int(sys.argv[3])
    n = int(sys.argv[4]) if len(sys.argv) > 4 else 40
    replay_bin = sys.argv[5] if len(sys.argv) > 5 else None
    core, d = load(so)
    rng = random.Random(seed)
    try:
        if prop == 'C19frames':
            fails = check_c19_frames(replay_bin)      # (the fifth argument is the repository root in this mode)
        elif prop == 'C19':
            fails = check_c19(core, rng, n)
        elif prop == 'C18twin':
            fails = check_c18_twin(core, rng, n, replay_bin)
        else:
            fails = check_c18(core, rng, n)
    finally:
        shutil.rmtree(d, ignore_errors=True)
    if isinstance(fails, str):
        # the stand-in cannot be evaluated on this tree (its own parser does not recognise the code): undecided, never a failure
        print(json.dumps({'property': prop, 'undecided': fails}))
        sys.exit(3)
    print(json.dumps({'property': prop, 'sequences': n, 'failures': fails[:1]}))
    sys.exit(1 if fails else 0)


if __name__ == '__main__':
    main()
