#!/opt/veriftools/pyvenv/bin/python
"""Bounded stand-in for the part of C18 / C19 that no contract reaches: the compiled extension module under CPython.

usage: py_bounded.py <path to libbourse.so> <C18|C19> <seed> [n]
Loads the real extension module (built from the working tree by the caller), drives it with seeded random call sequences and
compares what comes back with values recomputed independently in Python from get_orders() / get_trades() (C19: dictionary keys
and series, observation arrays, history getters) and with the documented encodings and error behaviour (C18).
Prints one JSON object; exit 0 = nothing found, 1 = a disagreement (first one reported with the call sequence that produced it)."""
import importlib.util
import json
import os
import random
import shutil
import sys
import tempfile


def load(so):
    d = tempfile.mkdtemp(prefix='bourse_mod_')
    shutil.copy(so, os.path.join(d, 'core.so'))
    spec = importlib.util.spec_from_file_location('core', os.path.join(d, 'core.so'))
    m = importlib.util.module_from_spec(spec)
    spec.loader.exec_module(m)
    return m, d


def active(orders, bid):
    return [o for o in orders if o[0] == bid and o[1] == 1]


def l2_from_orders(orders, tick, levels=10):
    """documented level-2 quantities recomputed from the order tuples (side, status, arr, end, vol, start_vol, price, trader, id)"""
    b, a = active(orders, True), active(orders, False)
    bid = max([o[6] for o in b], default=0)
    ask = min([o[6] for o in a], default=2 ** 32 - 1)
    bv, av = sum(o[4] for o in b), sum(o[4] for o in a)
    out = {'bid_price': bid, 'ask_price': ask, 'bid_vol': bv, 'ask_vol': av}
    for i in range(levels):
        pb, pa = bid - i * tick, ask + i * tick
        out['bid_vol_%d' % i] = sum(o[4] for o in b if o[6] == pb) if b else 0
        out['n_bid_%d' % i] = sum(1 for o in b if o[6] == pb) if b else 0
        out['ask_vol_%d' % i] = sum(o[4] for o in a if o[6] == pa) if a else 0
        out['n_ask_%d' % i] = sum(1 for o in a if o[6] == pa) if a else 0
    return out


def expected_l2_array(tv, q):
    arr = [tv, q['bid_price'], q['ask_price'], q['bid_vol'], q['ask_vol']]
    for i in range(10):
        arr += [q['bid_vol_%d' % i], q['n_bid_%d' % i], q['ask_vol_%d' % i], q['n_ask_%d' % i]]
    return arr


def check_c19(core, rng, n):
    import numpy as np
    fails = []
    for k in range(n):
        tick = rng.choice([1, 2, 5])
        seed = rng.randrange(10 ** 6)
        numpy_env = (k % 2 == 1)
        env = core.StepEnvNumpy(seed, 0, tick, 1000) if numpy_env else core.StepEnv(seed, 0, tick, 1000)
        calls = []
        rows = []      # per step: documented quantities from the live orders
        tvs = []
        ntr = 0
        for step in range(rng.randrange(3, 9)):
            # a step carries new limit orders, cancellations of earlier orders, (StepEnv) modifications - or only cancellations, or nothing at all
            kind = rng.choice(['mixed', 'mixed', 'mixed', 'cancels_only', 'empty', 'instructions'])
            n_known = len(env.get_orders())
            if kind in ('mixed', 'instructions'):
                batch = []
                for _ in range(rng.randrange(0, 7)):
                    bid = rng.random() < 0.5
                    vol = rng.randrange(1, 30)
                    price = (40 + rng.randrange(0, 12)) * tick
                    batch.append((bid, vol, rng.randrange(5), price))
                    calls.append(('limit', bid, vol, price))
                if numpy_env and kind == 'instructions' and (batch or n_known):
                    acts = [(1, b, v, t, p, 0) for (b, v, t, p) in batch]
                    for _ in range(rng.randrange(0, 3)):
                        if n_known:
                            oid = rng.randrange(n_known)
                            acts.append((2, False, 0, 0, 0, oid)); calls.append(('cancel', oid))
                    acts.append((0, False, 0, 0, 0, 0))
                    rng.shuffle(acts)
                    env.submit_instructions((np.array([a[0] for a in acts], dtype=np.uint32), np.array([a[1] for a in acts]), np.array([a[2] for a in acts], dtype=np.uint32),
                                             np.array([a[3] for a in acts], dtype=np.uint32), np.array([a[4] for a in acts], dtype=np.uint32), np.array([a[5] for a in acts], dtype=np.uint64)))
                else:
                    for (bid, vol, tr, price) in batch:
                        if numpy_env:
                            env.submit_limit_orders((np.array([bid]), np.array([vol], dtype=np.uint32), np.array([tr], dtype=np.uint32), np.array([price], dtype=np.uint32)))
                        else:
                            env.place_order(bid, vol, tr, price)
            if kind in ('mixed', 'cancels_only') and n_known:
                ids = [rng.randrange(n_known) for _ in range(rng.randrange(1, 4))] if (kind == 'cancels_only' or rng.random() < 0.5) else []
                for oid in ids:
                    calls.append(('cancel', oid))
                if ids and numpy_env:
                    env.submit_cancellations(np.array(ids, dtype=np.uint64))
                else:
                    for oid in ids:
                        env.cancel_order(oid)
            if kind == 'mixed' and n_known and not numpy_env and rng.random() < 0.4:
                oid = rng.randrange(n_known)
                np_, nv = rng.choice([None, (40 + rng.randrange(0, 12)) * tick]), rng.choice([None, rng.randrange(1, 30)])
                calls.append(('modify', oid, np_, nv))
                env.modify_order(oid, np_, nv)
            env.step()
            calls.append(('step',))
            orders = env.get_orders()
            trades = env.get_trades()
            q = l2_from_orders(orders, tick)
            rows.append(q)
            tv = sum(t[3] for t in trades[ntr:])
            ntr = len(trades)
            tvs.append(tv)
            l1 = list(env.level_1_data() if numpy_env else env.level_1_data_array())
            l2 = list(env.level_2_data() if numpy_env else env.level_2_data_array())
            e2 = expected_l2_array(tv, q)
            if [int(x) for x in l2] != e2:
                bad = [i for i in range(min(len(l2), 45)) if int(l2[i]) != e2[i]] if len(l2) == 45 else 'length %d' % len(l2)
                fails.append({'what': 'level-2 observation array differs from the documented layout at indices %s' % bad, 'env': type(env).__name__, 'calls': calls})
                break
            if [int(x) for x in l1] != e2[:9]:
                fails.append({'what': 'level-1 observation array %s differs from the documented layout %s' % ([int(x) for x in l1], e2[:9]), 'env': type(env).__name__, 'calls': calls})
                break
            md = env.get_market_data()
            want_keys = {'bid_price', 'ask_price', 'bid_vol', 'ask_vol', 'trade_vol'} | {'%s_%d' % (p, i) for p in ('bid_vol', 'ask_vol', 'n_bid', 'n_ask') for i in range(10)}
            if set(md.keys()) != want_keys:
                fails.append({'what': 'market-data dictionary keys differ from the documented set: %s' % sorted(set(md.keys()) ^ want_keys), 'env': type(env).__name__, 'calls': calls})
                break
            for key in sorted(want_keys):
                series = [int(x) for x in md[key]]
                want = tvs if key == 'trade_vol' else [r[key] for r in rows]
                if series != want:
                    fails.append({'what': "market-data dictionary['%s'] = %s, the documented quantity over the steps is %s" % (key, series, want), 'env': type(env).__name__, 'calls': calls})
                    break
            if fails:
                break
            if not numpy_env:
                pr, vo = env.get_prices(), env.get_volumes()
                if [int(x) for x in pr[0]] != [r['bid_price'] for r in rows] or [int(x) for x in pr[1]] != [r['ask_price'] for r in rows] \
                        or [int(x) for x in vo[0]] != [r['bid_vol'] for r in rows] or [int(x) for x in vo[1]] != [r['ask_vol'] for r in rows]:
                    fails.append({'what': 'get_prices / get_volumes are not (bid series, ask series)', 'env': 'StepEnv', 'calls': calls})
                    break
        if fails:
            break
    return fails


def check_c18(core, rng, n):
    """encodings, error behaviour and internal consistency of the Python classes (the comparison with the Rust core driven by the same
    sequence is done by the caller through the replay runner's `dump`)"""
    fails = []
    for k in range(n):
        tick = rng.choice([1, 2])
        ob = core.OrderBook(0, tick)
        calls = []
        t = 0
        for _ in range(rng.randrange(5, 40)):
            t += 1
            ob.set_time(t)
            r = rng.random()
            n_orders = len(ob.get_orders())
            if r < 0.5:
                bid, vol = rng.random() < 0.5, rng.randrange(1, 20)
                price = rng.choice([None, (20 + rng.randrange(0, 6)) * tick, (20 + rng.randrange(0, 6)) * tick + (1 if tick > 1 else 0)])
                before = (ob.get_orders(), ob.get_trades(), ob.bid_ask())
                calls.append(('place_order', bid, vol, price))
                try:
                    oid = ob.place_order(bid, vol, 1, price)
                    if price is not None and price % tick != 0:
                        fails.append({'what': 'off-grid price %d accepted' % price, 'calls': calls})
                    if oid != n_orders:
                        fails.append({'what': 'order id %d is not the next dense id %d' % (oid, n_orders), 'calls': calls})
                    rec = ob.get_orders()[oid]
                    if rec[0] is not bid or rec[8] != oid or rec[5] != vol:
                        fails.append({'what': 'order record %s does not carry side=%s id=%d start_vol=%d in the documented positions' % (rec, bid, oid, vol), 'calls': calls})
                except ValueError:
                    if price is None or price % tick == 0:
                        fails.append({'what': 'on-grid price raised ValueError', 'calls': calls})
                    if (ob.get_orders(), ob.get_trades(), ob.bid_ask()) != before:
                        fails.append({'what': 'ValueError left the object changed', 'calls': calls})
            elif r < 0.65 and n_orders:
                i = rng.randrange(n_orders)
                calls.append(('cancel_order', i))
                ob.cancel_order(i)
                if ob.order_status(i) not in (0, 1, 2, 3, 4) or ob.order_status(i) != ob.get_orders()[i][1]:
                    fails.append({'what': 'order_status disagrees with the status field of get_orders()', 'calls': calls})
            elif r < 0.8 and n_orders:
                i = rng.randrange(n_orders)
                np_, nv = rng.choice([None, (20 + rng.randrange(0, 6)) * tick]), rng.choice([None, rng.randrange(1, 20)])
                calls.append(('modify_order', i, np_, nv))
                ob.modify_order(i, np_, nv)
            elif r < 0.85:
                calls.append(('disable_trading',)); ob.disable_trading()
            elif r < 0.92:
                calls.append(('enable_trading',)); ob.enable_trading()
            # transparency of the getters: everything is recomputable from the order tuples
            orders = ob.get_orders()
            q = l2_from_orders(orders, tick, 1)
            got = (ob.bid_ask(), ob.bid_vol(), ob.ask_vol(), ob.best_bid_vol(), ob.best_ask_vol(), ob.best_bid_vol_and_orders(), ob.best_ask_vol_and_orders())
            want = ((q['bid_price'], q['ask_price']), q['bid_vol'], q['ask_vol'], q['bid_vol_0'], q['ask_vol_0'], (q['bid_vol_0'], q['n_bid_0']), (q['ask_vol_0'], q['n_ask_0']))
            if got != want:
                fails.append({'what': 'getters %s differ from the values recomputed from get_orders() %s' % (got, want), 'calls': calls})
            for tr in ob.get_trades():
                p = orders[tr[5]]
                if tr[1] is not p[0] or orders[tr[4]][0] is p[0]:
                    fails.append({'what': 'trade %s: side is not the passive order\'s side (True = bid)' % (tr,), 'calls': calls})
            if fails:
                return fails
        for bad in (-1, 2 ** 32, 2 ** 70):
            before = ob.get_orders()
            try:
                ob.place_order(True, bad, 1, None)
                fails.append({'what': 'out-of-range volume %d accepted' % bad, 'calls': calls})
            except OverflowError:
                if ob.get_orders() != before:
                    fails.append({'what': 'OverflowError left the object changed', 'calls': calls})
            except Exception as e:      # noqa
                fails.append({'what': 'out-of-range integer raised %s instead of OverflowError' % type(e).__name__, 'calls': calls})
        if fails:
            return fails
    return fails


def main():
    so, prop, seed = sys.argv[1], sys.argv[2], int(sys.argv[3])
    n = int(sys.argv[4]) if len(sys.argv) > 4 else 40
    core, d = load(so)
    rng = random.Random(seed)
    try:
        fails = check_c19(core, rng, n) if prop == 'C19' else check_c18(core, rng, n)
    finally:
        shutil.rmtree(d, ignore_errors=True)
    print(json.dumps({'property': prop, 'sequences': n, 'failures': fails[:1]}))
    sys.exit(1 if fails else 0)


if __name__ == '__main__':
    main()
