#!/usr/bin/env python3
"""design_table.py: splices the table printed by seedtable.py between the SEEDTABLE markers of DESIGN.md."""
import os, subprocess, sys
ROOT = os.path.dirname(os.path.dirname(os.path.abspath(__file__)))
t = subprocess.run([sys.executable, os.path.join(ROOT, 'tools', 'seedtable.py')], capture_output=True, text=True).stdout
p = os.path.join(ROOT, 'DESIGN.md')
s = open(p).read()
a, b = s.index('<!-- SEEDTABLE-BEGIN -->') + len('<!-- SEEDTABLE-BEGIN -->'), s.index('<!-- SEEDTABLE-END -->')
open(p, 'w').write(s[:a] + '\n' + t + s[b:])
print(t.strip().split('\n')[-1])
