"""Obligation table: cut the spliced contract text into named clauses and attribute verifier diagnostics to them."""
import os
import re

TAG_RE = re.compile(r'//\s*\[([^\]]+)\]\s*$')
SECTIONS = ('requires', 'ensures', 'invariant_except_break', 'invariant', 'decreases', 'recommends', 'no_unwind', 'opens_invariants', 'returns')


def strip_comment(line):
    k = line.find('//')
    return line if k < 0 else line[:k]


def clauses_of(text, first_line, section=None):
    """text: contract text of a signature or loop head.  Returns list of dicts
    {section, text, line_start, line_end, tags(list or None)}; line numbers are those of the .vc file.
    A clause ends at a top-level comma or where the next section keyword starts; it takes the `// [tags]` of the line it ends on."""
    out = []
    lines = text.split('\n')
    tag_of = {}
    depth = 0
    cur, cur_start, cur_last = '', None, None

    def flush():
        nonlocal cur, cur_start, cur_last
        body = ' '.join(cur.split()).strip()
        if body and section:
            out.append({'section': section, 'text': body, 'line_start': cur_start, 'line_end': cur_last, 'tags': tag_of.get(cur_last)})
        cur, cur_start, cur_last = '', None, None

    for k, raw in enumerate(lines):
        ln = first_line + k
        m = TAG_RE.search(raw)
        if m:
            tag_of[ln] = m.group(1).split()
        code = strip_comment(raw)
        s = code.strip()
        if depth == 0:
            for sec in SECTIONS:
                if re.match(r'%s\b' % sec, s):
                    flush()
                    section = sec
                    code = code.replace(sec, ' ' * len(sec), 1)
                    break
        for ch in code:
            if ch in '([{':
                depth += 1
            elif ch in ')]}':
                depth -= 1
            if ch == ',' and depth == 0:
                flush()
                continue
            if not ch.isspace():
                if cur_start is None:
                    cur_start = ln
                cur_last = ln
            cur += ch
        cur += ' '
    flush()
    return out


def build_table(vc, meta, unit):
    """All obligations of a generated unit.
    One obligation per contract clause (ensures / loop invariant / requires-at-every-call-site) of every contracted function,
    plus one `body` obligation per function (arithmetic overflow, bounds, unwrap, call-site preconditions of callees without a tagged
    requires clause, assertions in hints, termination)."""
    table = []
    seen_specs = {}
    for f in meta['functions']:
        q = f['name']
        spec = vc.fns.get(q)
        ftags = list(f.get('tags') or [])
        base = '%s/%s' % (unit, q)
        if spec is None:
            table.append({'id': base + '/body', 'fn': q, 'kind': 'body', 'tags': ftags, 'text': 'body of %s: panic freedom (overflow, bounds, unwrap), callee preconditions' % q,
                          'contracted': False, 'file': f['file'], 'line': f['line']})
            continue
        n = {}
        if spec.sig:
            blocks = [(spec.sig, None)] + [(b, 'ensures') for b in spec.sig_extra]
            for ((text, p, ln), sec0) in blocks:
                for c in clauses_of(text, ln, sec0):
                    sec = c['section']
                    n[sec] = n.get(sec, 0) + 1
                    ctags = c['tags'] if c['tags'] else ftags
                    name = (c['tags'][0].split('.', 1)[1] if c['tags'] and '.' in c['tags'][0] else None)
                    # named clauses are identified by their name (stable when clauses are added), unnamed ones by ordinal
                    if name:
                        oid = '%s/%s[%s]' % (base, sec, name)
                        if any(o['id'] == oid for o in table):
                            oid = '%s/%s[%s]#%d' % (base, sec, name, n[sec])
                    else:
                        oid = '%s/%s#%d' % (base, sec, n[sec])
                    table.append({'id': oid, 'fn': q, 'kind': sec, 'tags': ctags, 'text': c['text'], 'vcfile': p, 'vcline': (c['line_start'], c['line_end']),
                                  'explicit': bool(c['tags'])})
        for k, (iter_name, text, p, ln) in sorted(spec.loops.items()):
            m = 0
            for c in clauses_of(text, ln):
                m += 1
                ctags = c['tags'] if c['tags'] else ftags
                table.append({'id': '%s/loop%d/%s#%d' % (base, k, c['section'], m), 'fn': q, 'kind': 'loop_' + c['section'], 'tags': ctags, 'text': c['text'],
                              'vcfile': p, 'vcline': (c['line_start'], c['line_end']), 'explicit': bool(c['tags'])})
        table.append({'id': base + '/body', 'fn': q, 'kind': 'body', 'tags': list(f.get('body_tags') or ftags),
                      'text': 'body of %s: panic freedom (overflow, bounds, unwrap), callee preconditions, hint assertions, termination' % q,
                      'contracted': True, 'file': f['file'], 'line': f['line']})
    for (name, tags, text) in getattr(vc, 'corollaries', []):
        # a verified function of the unit's own prelude (e.g. the history driver): one obligation, discharged iff Verus verifies the function
        table.append({'id': '%s/%s/corollary' % (unit, name), 'fn': name, 'kind': 'corollary', 'tags': tags, 'text': text, 'explicit': True, 'contracted': True})
    return table


def tag_props(tags):
    return sorted({t.split('.')[0] for t in tags})


def fn_at(meta, gen_line):
    for f in meta['functions']:
        if f.get('gen_start', 0) <= gen_line <= f.get('gen_end', -1):
            return f['name']
    return None


def ghost_fn_at(gen_lines, gen_line):
    for k in range(min(gen_line, len(gen_lines)) - 1, -1, -1):
        m = re.match(r'\s*(?:pub\s+)?(?:open\s+|closed\s+|broadcast\s+|uninterp\s+)*(?:proof|spec|axiom|exec)?\s*fn\s+(\w+)', gen_lines[k])
        if m and not gen_lines[k].startswith('        '):
            return m.group(1)
    return None


def attribute(diag, table, meta, gen_lines):
    """Map one verification diagnostic to (obligation id or None, function, detail dict)."""
    spans = diag['spans']
    prim = [s for s in spans if s['primary']] or spans
    if not prim:
        return None, None, {'reason': 'no span'}
    # function that owns the failing query: the primary span for most kinds; for a failed postcondition both spans lie in the function
    loc_lines = [s['gen_line'] for s in spans]
    fn = None
    for s in prim + spans:
        fn = fn_at(meta, s['gen_line'])
        if fn:
            break
    detail = {'message': diag['message'], 'where': [], 'fn': fn}
    for s in spans:
        o = s['origin']
        detail['where'].append({'label': s['label'], 'origin': '%s:%s' % (o.get('file', o.get('kind')), o.get('line', '')), 'text': s['text'][:200], 'primary': s['primary']})
    if fn is None:
        g = ghost_fn_at(gen_lines, prim[0]['gen_line'])
        detail['ghost_fn'] = g
        cor = [o for o in table if o['kind'] == 'corollary' and o['fn'] == g]
        if cor:
            detail['fn'] = g
            detail['sub'] = ' '.join(strip_comment(prim[0]['text']).split())[:120]
            return cor[0]['id'], g, detail
        return None, None, detail
    msg = diag['message']
    byfn = [o for o in table if o['fn'] == fn]
    # clause-level: a span labelled as the failed clause, lying in contract text of this function (or of a callee, for preconditions)
    for s in spans:
        lab = (s['label'] or '')
        o = s['origin']
        if o.get('kind') != 'vc':
            continue
        if 'failed this postcondition' in lab or 'failed this invariant' in lab or 'invariant' in msg and s['primary'] or 'failed this decreases' in lab:
            for ob in byfn:
                if ob.get('vcfile') == o.get('file') and ob['vcline'][0] <= o.get('line', -1) <= ob['vcline'][1] and ob['kind'] != 'requires':
                    return ob['id'], fn, detail
        if 'failed precondition' in lab or 'failed this precondition' in lab:
            # the callee's requires clause: find it in the callee's table, report it at this call site
            callee = o.get('fn')
            for ob in table:
                if ob['fn'] == callee and ob['kind'] == 'requires' and ob.get('vcfile') == o.get('file') and ob['vcline'][0] <= o.get('line', -1) <= ob['vcline'][1]:
                    detail['callee_clause'] = ob['id']
                    detail['callee_tags'] = ob['tags'] if ob.get('explicit') else None
                    break
    # explicit tag on the failing line itself (assertions inside hints carry `// [Cxx.name]`)
    for s in prim:
        gl = s['gen_line']
        if 0 < gl <= len(gen_lines):
            m = TAG_RE.search(gen_lines[gl - 1])
            if m and s['origin'].get('kind') == 'vc':
                detail['line_tags'] = m.group(1).split()
    # a finer name for what failed inside the body, stable under renaming of locals in the repository
    sub = None
    clean = lambda t: ' '.join(strip_comment(t).split()).rstrip(',;').strip()
    if 'precondition' in msg:
        for s in spans:
            if 'failed precondition' in (s['label'] or ''):
                o = s['origin']
                if o.get('kind') == 'external':
                    # precondition of a library function (vstd specification, e.g. Result::unwrap / Option::unwrap / indexing)
                    sub = 'pre:std(%s):%s' % (os.path.basename(str(o.get('file'))), clean(prim[0]['text'])[:70])
                else:
                    callee = o.get('fn') or ghost_fn_at(gen_lines, s['gen_line']) or '?'
                    sub = 'pre:%s:%s' % (callee, clean(s['text']))
    elif 'assertion failed' in msg or 'assert' in msg:
        sub = 'assert:%s' % clean(prim[0]['text'])
    elif 'overflow' in msg or 'underflow' in msg:
        sub = 'arith:%s' % clean(prim[0]['text'])
    else:
        sub = clean(msg)
    detail['sub'] = sub
    return [o for o in byfn if o['kind'] == 'body'][0]['id'], fn, detail
