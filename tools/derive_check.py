"""C20: the derive macros, through their real expansion.

For a stated finite family of struct shapes the check writes the struct, runs the REAL derive macro of the working tree
(`rustc -Zunpretty=expanded` on a scratch crate that depends on $REPO/crates/macros), cuts the generated `update` body out of the
expansion, and verifies it with Verus against the contract: members have an UNINTERPRETED contract (self, env, rng) -> (self', env', rng'),
the set must equal the left-to-right composition over the DECLARED fields, each exactly once, same env and rng.
`syn` / `quote` internals are not verified; the shapes are a finite family (stated in the evidence)."""
import json
import os
import re
import subprocess

# (name, macro, fields) ; field = (attrs, vis, name, type-tag) ; type-tag: 'A','B',.. plain member agent types, 'S*' a member that is itself a set
SHAPES = []


def _mk():
    kinds = [('AgentSet', 'Agent'), ('MarketAgentSet', 'MarketAgent')]
    base = [
        ('One', [('', '', 'solo', 'A')]),
        ('Two', [('', '', 'zulu', 'A'), ('', 'pub ', 'alpha', 'B')]),
        ('Three', [('', '', 'mid', 'A'), ('/// documented member\n    ', 'pub ', 'zeta', 'B'), ('', '', 'beta', 'C')]),
        ('Repeated', [('', '', 'takers', 'A'), ('', '', 'makers', 'A'), ('', 'pub(crate) ', 'arb', 'B'), ('', '', 'again', 'A')]),
        ('Nested', [('', '', 'outer_first', 'A'), ('', '', 'inner', 'S1'), ('', '', 'after', 'B')]),
        ('Attrs', [('#[allow(dead_code)]\n    ', '', 'quiet', 'A'), ('#[cfg(all())]\n    ', '', 'gated', 'B'), ('#[cfg(not(any()))]\n    ', 'pub ', 'also_gated', 'C'), ('', '', 'last', 'A')]),
        ('Stacked', [('#[cfg(all())]\n    #[cfg(not(any()))]\n    ', '', 'twice_gated', 'A'), ('/// doc one\n    /// doc two\n    #[allow(dead_code)]\n    #[allow(unused)]\n    ', 'pub ', 'twice_allowed', 'B'),
                     ('#[cfg(all())]\n    #[cfg(all())]\n    #[cfg(all())]\n    ', '', 'thrice', 'A'), ('#[cfg_attr(all(), allow(dead_code))]\n    #[doc = "x"]\n    ', '', 'mixed', 'C'), ('', '', 'plain_last', 'B')]),
        ('Five', [('', '', 'e', 'A'), ('', '', 'd', 'B'), ('', '', 'c', 'C'), ('', '', 'b', 'D'), ('', '', 'a', 'E')]),
        ('Six', [('', '', 'n1', 'A'), ('', '', 'n10', 'B'), ('', '', 'n2', 'A'), ('', '', 'inner_set', 'S1'), ('', '', 'n3', 'C'), ('', '', 'r#type', 'B')]),
        ('Seven', [('', '', 'g', 'A'), ('', '', 'a', 'B'), ('', '', 'f', 'C'), ('', '', 'b', 'D'), ('', '', 'e', 'E'), ('', '', 'c', 'F'), ('', '', 'd', 'G')]),
        ('OneLineTwo', [('', '', 'second', 'A'), ('', '', 'first', 'B')], True),
        ('OneLineOne', [('', '', 'only', 'A')], True),
        ('OneLineNested', [('', '', 'lead', 'A'), ('', '', 'tail_set', 'S1')], True),
        ('Alternating', [('', '', 'q1', 'A'), ('', '', 't1', 'B'), ('', '', 'q2', 'A'), ('', '', 't2', 'B'), ('', '', 'inner', 'S1'), ('', '', 'q3', 'A')]),
        ('Eight', [('', '', 'h8', 'A'), ('', '', 's1', 'S1'), ('', '', 'h6', 'B'), ('', '', 'h5', 'A'), ('', '', 's2', 'S2'), ('', '', 'h3', 'C'), ('', '', 'h2', 'B'), ('', '', 'h1', 'D')]),
    ]
    for macro, member in kinds:
        for entry in base:
            nm, fields = entry[0], entry[1]
            SHAPES.append({'name': ('M' if macro.startswith('Market') else 'S') + nm, 'macro': macro, 'member': member, 'fields': fields, 'oneline': len(entry) > 2})
    # field types that are not plain paths in the macro's input (the struct the compiler sees is the same): a parenthesised type, a type that arrives
    # through a `$t:ty` fragment of a declarative macro (an invisible group), a type macro.  `how` names the spelling, `which` the fields it applies to.
    odd = [
        ('Paren', 'paren', [1, 3], [('', '', 'p0', 'A'), ('', '', 'p1', 'B'), ('', 'pub ', 'p2', 'C'), ('', '', 'p3', 'A'), ('', '', 'p4', 'D')]),
        ('ParenFirst', 'paren', [0], [('', '', 'q0', 'A'), ('', '', 'q1', 'B'), ('', '', 'q2', 'C')]),
        ('Group', 'group', [1], [('', '', 'g0', 'A'), ('', '', 'g1', 'B'), ('', '', 'g2', 'C')]),
        ('GroupTwo', 'group', [0, 2], [('', '', 'h0', 'A'), ('', '', 'h1', 'B'), ('', '', 'h2', 'C'), ('', '', 'h3', 'S1'), ('', '', 'h4', 'A')]),
        ('TyMac', 'tymac', [1, 2], [('', '', 't0', 'A'), ('', '', 't1', 'B'), ('', '', 't2', 'A'), ('', '', 't3', 'C')]),
    ]
    for macro, member in kinds:
        for nm, how, which, fields in odd:
            SHAPES.append({'name': ('M' if macro.startswith('Market') else 'S') + nm, 'macro': macro, 'member': member, 'fields': fields, 'oneline': False, 'how': how, 'which': which})


_mk()


KEYWORDS = {'as', 'break', 'const', 'continue', 'crate', 'else', 'enum', 'extern', 'false', 'fn', 'for', 'if', 'impl', 'in', 'let', 'loop', 'match', 'mod', 'move', 'mut', 'pub', 'ref', 'return', 'self', 'Self',
            'static', 'struct', 'super', 'trait', 'true', 'type', 'unsafe', 'use', 'where', 'while', 'async', 'await', 'dyn', 'abstract', 'become', 'box', 'do', 'final', 'macro', 'override', 'priv',
            'typeof', 'unsized', 'virtual', 'yield', 'try', 'env', 'rng', 'update'}
_dict_done = set()


def dictionary_shapes(repo):
    """White-box shapes: every short string literal of the macro crate's own source (a word the macro could be comparing attributes, names or types
    against) is planted in a doc comment, a #[doc] attribute, an #[allow] lint name position and - when it is an identifier - as a field name.
    Generated on every run from the working tree, so a newly introduced special case in the macro brings its own trigger word along."""
    src_p = os.path.join(repo, 'crates', 'macros', 'src', 'lib.rs')
    try:
        src = open(src_p).read()
    except OSError:
        return []
    words = []
    for m in re.finditer(r'"((?:[^"\\]|\\.){1,24})"', src):
        w = m.group(1)
        if re.fullmatch(r'[A-Za-z_][A-Za-z0-9_ ]{0,23}', w) and w not in words:
            words.append(w)
    # identifiers the macro source compares with `==` / is_ident(..) / contains(..) are already literals; cap the family
    words = words[:12]
    added = []
    for k, w in enumerate(words):
        if (repo, w) in _dict_done:
            continue
        _dict_done.add((repo, w))
        ident = re.sub(r'\W', '_', w.strip())
        fname = ident if (re.fullmatch(r'[a-z_][a-z0-9_]*', ident) and ident not in KEYWORDS) else 'plain%d' % k
        stacked = {'cfg': '#[cfg(all())]\n    #[cfg(all())]\n    ', 'cfg_attr': '#[cfg_attr(all(), allow(dead_code))]\n    #[cfg_attr(all(), allow(unused))]\n    ',
                   'allow': '#[allow(dead_code)]\n    #[allow(unused)]\n    ', 'doc': '#[doc = "a"]\n    #[doc = "b"]\n    ', 'deprecated': '#[deprecated]\n    '}.get(w.strip(), '')
        fields = [('', '', 'first', 'A'),
                  ('/// %s: this member %s a step now and then (%s)\n    ' % (w, w, w), 'pub ', 'documented', 'B'),
                  ('#[doc = "%s"]\n    ' % w, '', 'attributed', 'C'),
                  (stacked, '', fname, 'A'),
                  ('', '', 'last', 'D')]
        for macro, member in (('AgentSet', 'Agent'), ('MarketAgentSet', 'MarketAgent')):
            sh = {'name': ('M' if macro.startswith('Market') else 'S') + 'Dict%d' % k, 'macro': macro, 'member': member, 'fields': fields, 'oneline': False, 'dictionary_word': w}
            if not any(x['name'] == sh['name'] for x in SHAPES):
                SHAPES.append(sh)
                added.append(sh['name'])
    return added


def shape_source():
    out = ['#![allow(dead_code, unused, unused_parens)]', 'use bourse_macros::{AgentSet, MarketAgentSet};', 'macro_rules! same_ty { ($t:ty) => { $t }; }']
    for s in SHAPES:
        tps = sorted({f[3] for f in s['fields']})
        how, which = s.get('how'), s.get('which', [])
        if how == 'group':
            # the struct is declared by a declarative macro; the chosen field types are passed as `$t:ty` fragments
            params = ', '.join('$t%d:ty' % k for k in which)
            body = ', '.join('%s%s: %s' % (vis, name, ('$t%d' % k) if k in which else ty) for k, (attrs, vis, name, ty) in enumerate(s['fields']))
            out.append('macro_rules! decl_%s { (%s) => { #[derive(%s)] pub struct %s<%s> { %s } }; }' % (s['name'].lower(), params, s['macro'], s['name'], ', '.join(tps), body))
            out.append('decl_%s!(%s);' % (s['name'].lower(), ', '.join(s['fields'][k][3] for k in which)))
            continue
        if how in ('paren', 'tymac'):
            out.append('#[derive(%s)]' % s['macro'])
            out.append('pub struct %s<%s> {' % (s['name'], ', '.join(tps)))
            for k, (attrs, vis, name, ty) in enumerate(s['fields']):
                t = ty if k not in which else ('(%s)' % ty if how == 'paren' else 'same_ty!(%s)' % ty)
                out.append('    %s%s%s: %s,' % (attrs, vis, name, t))
            out.append('}')
            continue
        out.append('#[derive(%s)]' % s['macro'])
        if s.get('oneline'):
            # written on one line WITHOUT a trailing comma after the last field
            out.append('pub struct %s<%s> { %s }' % (s['name'], ', '.join(tps), ', '.join('%s%s: %s' % (vis, name, ty) for attrs, vis, name, ty in s['fields'])))
            continue
        out.append('pub struct %s<%s> {' % (s['name'], ', '.join(tps)))
        for attrs, vis, name, ty in s['fields']:
            out.append('    %s%s%s: %s,' % (attrs, vis, name, ty))
        out.append('}')
    return '\n'.join(out) + '\n'


def expand(repo, workdir):
    dictionary_shapes(repo)
    os.makedirs(os.path.join(workdir, 'src'), exist_ok=True)
    with open(os.path.join(workdir, 'Cargo.toml'), 'w') as f:
        f.write('[package]\nname = "derive_shapes"\nversion = "0.1.0"\nedition = "2021"\n[workspace]\n[dependencies]\nbourse-macros = { path = "%s/crates/macros" }\n' % repo)
    with open(os.path.join(workdir, 'src', 'lib.rs'), 'w') as f:
        f.write(shape_source())
    lock = os.path.join(repo, 'Cargo.lock')
    if os.path.exists(lock):
        subprocess.run(['cp', lock, os.path.join(workdir, 'Cargo.lock')])
    env = dict(os.environ, RUSTC_BOOTSTRAP='1', CARGO_NET_OFFLINE='true')
    cmd = ['cargo', 'rustc', '--offline', '--lib', '--', '-Zunpretty=expanded']
    p = subprocess.run(cmd, cwd=workdir, capture_output=True, text=True, env=env)
    if 'impl bourse_de::agents' not in p.stdout:
        # the lock file of the repository may not fit a crate with a single dependency: retry without it
        subprocess.run(['rm', '-f', os.path.join(workdir, 'Cargo.lock')])
        p = subprocess.run(cmd, cwd=workdir, capture_output=True, text=True, env=env)
    return p.stdout, p.stderr, ' '.join(cmd)


def cut_impls(expanded):
    """-> {struct name: (trait name, signature text, body text)} from the expansion (brace matching)"""
    res = {}
    for m in re.finditer(r'impl\s*(<[^{]*?>)?\s*bourse_de::agents::(AgentSet|MarketAgentSet)\s+for\s+(\w+)', expanded):
        i = expanded.index('{', m.end())
        # the single fn inside
        fn = expanded.index('fn update', i)
        b0 = expanded.index('{', fn)
        depth, k = 0, b0
        while True:
            c = expanded[k]
            if c == '{':
                depth += 1
            elif c == '}':
                depth -= 1
                if depth == 0:
                    break
            k += 1
        res.setdefault(m.group(3), []).append((m.group(2), ' '.join(expanded[fn:b0].split()), expanded[b0 + 1:k]))
    return res


PRELUDE = '''use vstd::prelude::*;
verus! {
// opaque stand-ins for bourse_de::Env / MarketEnv and rand::RngCore: nothing is known about them
#[verifier::external_body] pub struct Env { _p: u8 }
#[verifier::external_body] pub struct MarketEnv<const M: usize, const N: usize> { _p: u8 }
pub trait RngCore { spec fn st(&self) -> int; }
// a member (an agent, or a set used as a member): its update has an UNINTERPRETED contract - any behaviour whatsoever
pub trait Agent: Sized {
    spec fn upd_env(&self, e: Env, r: int) -> Env;
    spec fn upd_rng(&self, e: Env, r: int) -> int;
    spec fn upd_self(&self, e: Env, r: int) -> Self;
    fn update<R: RngCore>(&mut self, env: &mut Env, rng: &mut R)
        ensures *final(env) == old(self).upd_env(*old(env), old(rng).st()), final(rng).st() == old(self).upd_rng(*old(env), old(rng).st()),
                *final(self) == old(self).upd_self(*old(env), old(rng).st());
}
pub trait MarketAgent: Sized {
    spec fn upd_env<const M: usize, const N: usize>(&self, e: MarketEnv<M, N>, r: int) -> MarketEnv<M, N>;
    spec fn upd_rng<const M: usize, const N: usize>(&self, e: MarketEnv<M, N>, r: int) -> int;
    spec fn upd_self<const M: usize, const N: usize>(&self, e: MarketEnv<M, N>, r: int) -> Self;
    fn update<R: RngCore, const M: usize, const N: usize>(&mut self, env: &mut MarketEnv<M, N>, rng: &mut R)
        ensures *final(env) == old(self).upd_env(*old(env), old(rng).st()), final(rng).st() == old(self).upd_rng(*old(env), old(rng).st()),
                *final(self) == old(self).upd_self(*old(env), old(rng).st());
}
'''


def verus_unit(impls):
    """Generates the Verus text; returns (text, obligations, problems)."""
    out = [PRELUDE]
    obligations = []
    problems = []
    for s in SHAPES:
        got = impls.get(s['name'], [])
        if len(got) != 1 or got[0][0] != s['macro']:
            problems.append('%s: expected exactly one generated impl of %s, found %s' % (s['name'], s['macro'], [g[0] for g in got]))
            continue
        _, sig, body = got[0]
        market = s['macro'] == 'MarketAgentSet'
        member = s['member']
        tps = sorted({f[3] for f in s['fields']})
        gens = ', '.join('%s: %s' % (t, member) for t in tps)
        out.append('pub struct %s<%s> {' % (s['name'], gens))
        for attrs, vis, name, ty in s['fields']:
            out.append('    %s: %s,' % (name, ty))
        out.append('}')
        # the expected composition, from the DECLARED field order
        lines = ['let e0 = *old(env); let r0 = old(rng).st();']
        conj = []
        for k, (attrs, vis, name, ty) in enumerate(s['fields']):
            lines.append('let e%d = old(self).%s.upd_env(e%d, r%d); let r%d = old(self).%s.upd_rng(e%d, r%d);' % (k + 1, name, k, k, k + 1, name, k, k))
            conj.append('final(self).%s == old(self).%s.upd_self(e%d, r%d)' % (name, name, k, k))
        n = len(s['fields'])
        ens = '({ %s\n            *final(env) == e%d && final(rng).st() == r%d\n            && %s })' % ('\n            '.join(lines), n, n, '\n            && '.join(conj))
        envty = 'MarketEnv<M, N>' if market else 'Env'
        cg = ', const M: usize, const N: usize' if market else ''
        out.append('impl<%s> %s<%s> {' % (gens, s['name'], ', '.join(tps)))
        out.append('    // signature generated by the macro: %s' % sig)
        out.append('    fn update<R: RngCore%s>(&mut self, env: &mut %s, rng: &mut R)' % (cg, envty))
        out.append('        ensures %s // [C20.composition %s]' % (ens, s['name']))
        out.append('    {  // ---- body cut verbatim from the real macro expansion ----')
        out.append(body.rstrip())
        out.append('    }')
        out.append('}')
        obligations.append({'id': 'derive/%s::update/ensures[composition]' % s['name'], 'fn': '%s::update' % s['name'], 'kind': 'ensures', 'tags': ['C20.composition'], 'explicit': True,
                            'text': 'update of %s (%d fields: %s; derive %s) == left-to-right composition of the members\' uninterpreted updates in declaration order, each once, same env and rng'
                                    % (s['name'], n, ', '.join('%s:%s' % (f[2], f[3]) for f in s['fields']), s['macro'])})
        obligations.append({'id': 'derive/%s::update/signature' % s['name'], 'fn': '%s::update' % s['name'], 'kind': 'signature', 'tags': ['C20.signature'], 'explicit': True,
                            'text': 'generated signature is `%s`' % sig})
    out.append('} // verus!\nfn main() {}')
    return '\n'.join(out) + '\n', obligations, problems


EXPECT_SIG = {
    'AgentSet': 'fn update<R: rand::RngCore>(&mut self, env: &mut bourse_de::Env, rng: &mut R)',
    'MarketAgentSet': 'fn update<R: rand::RngCore, const M : usize, const N : usize>(&mut self, env: &mut bourse_de::MarketEnv<M, N>, rng: &mut R)',
}


def norm(s):
    return re.sub(r'\s+', '', s)
