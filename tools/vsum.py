"""dev helper: extract + verify a unit and print a compact summary"""
import sys, json, os, re
sys.path.insert(0, os.path.dirname(__file__))
import extract, vrun
repo = os.environ.get('REPO', '/repo')
vc = sys.argv[1]
funcs = sys.argv[2:] or None
rs, meta = extract.build_unit(repo, vc, os.path.join(os.environ.get('VERIF_OUT', '/verif'), 'build'))
for w in meta['warnings']: print('warning:', w)
run = vrun.run_verus(rs, funcs=funcs if funcs and len(funcs)==1 else None, module=meta.get('module'), rlimit=60, threads=16)
res = vrun.parse(run, meta)
gen = open(rs).read().split('\n')
def fn_at(line):
    for f in meta['functions']:
        if f.get('gen_start', 0) <= line <= f.get('gen_end', -1): return f['name']
    for k in range(line - 1, -1, -1):
        m = re.match(r'\s*(?:pub\s+)?(?:open\s+|closed\s+|broadcast\s+)?(?:proof|spec|axiom)?\s*fn\s+(\w+)', gen[k])
        if m and not gen[k].startswith('        '): return 'ghost:' + m.group(1)
    return '?'
if res['frontend_error']:
    print('FRONTEND ERROR:', res['frontend_error'])
for d in res['diagnostics']:
    prim = [s for s in d['spans'] if s['primary']] or d['spans']
    loc = prim[0]['gen_line'] if prim else 0
    if funcs and fn_at(loc).replace('ghost:','') not in funcs: continue
    print('-- %s [%s] in %s' % (d['message'], d['kind'], fn_at(loc)))
    for s in d['spans']:
        o = s['origin']
        print('     %s gen:%d %s %s:%s | %s' % ('*' if s['primary'] else ' ', s['gen_line'], s['label'] or '', o.get('file', o.get('kind')), o.get('line', ''), s['text'][:110]))
bad = [n for n, f in res['functions'].items() if not f['success']]
print('verified=%d errors=%d wall=%.1fs smt=%dms failing=%s' % (res['verified'], res['errors'], run['wall_s'], res['smt_ms'], bad))
slow = sorted(res['functions'].items(), key=lambda kv: -kv[1]['ms'])[:6]
print('slowest:', [(n, f['ms']) for n, f in slow])
