#!/bin/bash
# ingest_seed.sh <dir with patch.diff demo.rs|demo.py notes.md [crate.txt]> <name e.g. C16_E> [round]
# Confirms a seeded change (applies, suite passes with it, demo fails with it / passes without) and, if confirmed, stores it under /verif/seeded/<name>/ with meta.json.
set -u
SRC=$(readlink -f "$1"); NAME=$2; ROUND=${3:-3}
PID=${NAME%%_*}; VAR=${NAME##*_}
if [ -f "$SRC/demo.py" ]; then
  OUT=$(/verif/tools/confirm_pyseed.sh "$SRC" 2>&1); HOW="tools/confirm_pyseed.sh"; LOC="python: tools/confirm_pyseed.sh"
else
  CR=$(cat "$SRC/crate.txt" 2>/dev/null | tr -d ' \n'); CR=${CR:-crates/order_book}
  OUT=$(/verif/tools/confirm_seed.sh "$SRC" "$CR" 2>&1); HOW="tools/confirm_seed.sh"; LOC="$CR/tests/"
fi
echo "$OUT" | tail -4
if echo "$OUT" | grep -q '^CONFIRMED'; then
  D=/verif/seeded/$NAME; mkdir -p $D
  cp "$SRC"/patch.diff "$SRC"/notes.md $D/; [ -f "$SRC/demo.rs" ] && cp "$SRC/demo.rs" $D/; [ -f "$SRC/demo.py" ] && cp "$SRC/demo.py" $D/
  python3 - "$D" "$PID" "$VAR" "$ROUND" "$HOW" "$LOC" <<'PY'
import json, sys
d, pid, var, rnd, how, loc = sys.argv[1:]
first = open(d + '/notes.md').readline().strip().lstrip('# ')
json.dump({'property': pid, 'variant': var, 'round': int(rnd), 'summary': first,
  'source': 'independent sub-agent given only the property text, a scratch worktree, an area of the repository to prefer and one-line descriptions of the earlier changes to avoid (nothing from /verif)',
  'needs': 'see notes.md', 'confirmed_by': how + ': patch applies; cargo test --workspace --offline passes with it (39 tests + doc-tests); the demonstration fails with it and passes without it',
  'demo_location': loc}, open(d + '/meta.json', 'w'), indent=1)
PY
  echo "INGESTED $NAME"
else
  echo "REJECTED $NAME"
fi
