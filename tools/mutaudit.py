#!/usr/bin/env python3
"""Contract-strength audit (development tool, never part of a check): small syntactic mutations of the verified source files, each applied to a scratch worktree,
compiled, and run through the Verus unit(s) that read the file.  A mutant that compiles and leaves EVERY obligation of its units discharged is a survivor:
either an equivalent mutant or a gap in the contracts / the extraction.  mutaudit.py [-n N] [-j J] [--seed S] [files...]  -> prints survivors, writes /tmp/mutaudit.json"""
import argparse, json, os, random, re, subprocess, sys, shutil
from concurrent.futures import ThreadPoolExecutor
ROOT = os.path.dirname(os.path.dirname(os.path.abspath(__file__)))
FILES = {
    'crates/order_book/src/orderbook.rs': (['book'], 'bourse-book'),
    'crates/order_book/src/side.rs': (['book'], 'bourse-book'),
    'crates/order_book/src/types.rs': (['book'], 'bourse-book'),
    'crates/order_book/src/market.rs': (['market'], 'bourse-book'),
    'crates/step_sim/src/env.rs': (['env'], 'bourse-de'),
    'crates/step_sim/src/market_env.rs': (['menv'], 'bourse-de'),
    'crates/step_sim/src/data.rs': (['env'], 'bourse-de'),
    'crates/step_sim/src/agents/common.rs': (['agents'], 'bourse-de'),
    'crates/step_sim/src/agents/noise_agent.rs': (['agents'], 'bourse-de'),
    'crates/step_sim/src/agents/momentum_agent.rs': (['agents'], 'bourse-de'),
    'crates/step_sim/src/agents/random_agent.rs': (['agents'], 'bourse-de'),
    'crates/step_sim/src/runner.rs': (['runner'], 'bourse-de'),
    'rust/src/step_sim.rs': (['py'], 'bourse'),
    'rust/src/order_book.rs': (['py'], 'bourse'),
    'rust/src/step_sim_numpy.rs': (['py'], 'bourse'),
    'rust/src/types.rs': (['py'], 'bourse'),
}
SWAPS = [(r'<=', '<'), (r'>=', '>'), (r'(?<![<>=!-])<(?![<=])', '<='), (r'(?<![<>=!-])>(?![>=])', '>='), (r'==', '!='), (r'!=', '=='), (r'\+=', '-='), (r'-=', '+='),
         (r'(?<![+\w])\+(?![+=])', '-'), (r'\btrue\b', 'false'), (r'\bfalse\b', 'true'), (r'\bbid_side\b', 'ask_side'), (r'\bask_side\b', 'bid_side'),
         (r'\bSide::Bid\b', 'Side::Ask'), (r'\bSide::Ask\b', 'Side::Bid'), (r'\b0\b', '1'), (r'\b1\b', '2'), (r'&&', '||'), (r'\.0\b', '.1'), (r'\.1\b', '.0'),
         (r'\bStatus::Active\b', 'Status::New'), (r'\bStatus::Filled\b', 'Status::Cancelled'), (r'\bStatus::Cancelled\b', 'Status::Filled'), (r'\bvol\b', 'start_vol'),
         (r'\bbid_price\b', 'ask_price'), (r'\bask_vol\b', 'bid_vol'), (r'\barr_time\b', 'end_time'), (r'\bPrice::MAX\b', '0'), (r'\bwrapping_sub\b', 'saturating_sub'), (r'\bwrapping_add\b', 'saturating_add')]


def sites(path):
    src = open(path).read()
    cut = src.find('#[cfg(test)]\nmod')
    body = src if cut < 0 else src[:cut]
    out = []
    for k, (pat, rep) in enumerate(SWAPS):
        for m in re.finditer(pat, body):
            line_start = body.rfind('\n', 0, m.start()) + 1
            line = body[line_start:body.find('\n', m.start())]
            if line.lstrip().startswith(('//', '#[', 'use ', 'pub use')) or '///' in line[:m.start() - line_start + 3]:
                continue
            out.append((m.start(), m.end(), rep, line.strip()[:110]))
    return src, out


def one(job):
    k, rel, s, e, rep, line = job
    wt = '/tmp/mutaudit_%d' % k
    subprocess.run(['git', '-C', '/repo', 'worktree', 'remove', '--force', wt], capture_output=True)
    subprocess.run(['git', '-C', '/repo', 'worktree', 'add', '-q', '--detach', wt, 'HEAD'], check=True)
    res = {'file': rel, 'line': line, 'to': rep, 'pos': s}
    try:
        p = os.path.join(wt, rel)
        src = open(p).read()
        open(p, 'w').write(src[:s] + rep + src[e:])
        units, crate = FILES[rel]
        env = dict(os.environ, CARGO_NET_OFFLINE='true', CARGO_TARGET_DIR='/tmp/mutaudit_target_%d' % (k % 3))
        c = subprocess.run(['cargo', 'check', '-p', crate, '--offline', '-q'], cwd=wt, capture_output=True, text=True, env=env)
        if c.returncode != 0:
            res['outcome'] = 'does not compile'
            return res
        code = ('import sys,os,json\nsys.path.insert(0,%r)\nimport check\nout={}\n' % os.path.join(ROOT, 'tools') +
                'for u in %r:\n    try:\n        r=check.UnitRun(u,u+".vc").build()\n        v=r.verify(seed=0,use_cache=False)\n        f,i=r.failures(v)\n'
                '        out[u]={"errors":v["errors"],"fe":v.get("frontend_error"),"fails":[x["full"] for x in f if "std(result.rs)" not in x["full"]][:4],"stub":r.meta.get("stubbed")}\n'
                '    except Exception as ex:\n        out[u]={"exc":str(ex)[:200]}\nprint(json.dumps(out))\n' % (units,))
        env2 = dict(os.environ, REPO=wt, VERIF_OUT='/tmp/mutaudit_out_%d' % k)
        v = subprocess.run([sys.executable, '-c', code], capture_output=True, text=True, env=env2, cwd=ROOT)
        try:
            out = json.loads(v.stdout.strip().split('\n')[-1])
        except Exception:
            res['outcome'] = 'audit error: ' + (v.stderr[-300:])
            return res
        res['units'] = out
        killed = any(u.get('exc') or u.get('fe') or u.get('stub') or u.get('fails') for u in out.values())
        res['outcome'] = 'killed' if killed else 'SURVIVED'
        return res
    finally:
        subprocess.run(['git', '-C', '/repo', 'worktree', 'remove', '--force', wt], capture_output=True)
        shutil.rmtree('/tmp/mutaudit_out_%d' % k, ignore_errors=True)


def main():
    ap = argparse.ArgumentParser(); ap.add_argument('-n', type=int, default=40); ap.add_argument('-j', type=int, default=3); ap.add_argument('--seed', type=int, default=0); ap.add_argument('files', nargs='*')
    a = ap.parse_args()
    rng = random.Random(a.seed)
    jobs = []
    allsites = []
    for rel in (a.files or FILES):
        src, ss = sites(os.path.join('/repo', rel))
        allsites += [(rel,) + x for x in ss]
    rng.shuffle(allsites)
    for k, (rel, s, e, rep, line) in enumerate(allsites[:a.n]):
        jobs.append((k, rel, s, e, rep, line))
    res = []
    with ThreadPoolExecutor(max_workers=a.j) as ex:
        for r in ex.map(one, jobs):
            res.append(r)
            print('%-10s %s: `%s` -> %s' % (r['outcome'][:10], r['file'], r['line'], r['to']), flush=True)
    json.dump(res, open('/tmp/mutaudit.json', 'w'), indent=1)
    print('survivors: %d of %d compiled mutants' % (len([r for r in res if r['outcome'] == 'SURVIVED']), len([r for r in res if r['outcome'] in ('SURVIVED', 'killed')])))


main()
