#!/usr/bin/env python3
"""seedtable.py: markdown table of the seeded changes and what the checks reported for each (from seeded/sweep.json, written by seedsweep.py)."""
import json, os, re, sys
SD = os.path.join(os.path.dirname(os.path.dirname(os.path.abspath(__file__))), 'seeded')
sw = json.load(open(os.path.join(SD, 'sweep.json')))
rows = []
for name in sorted(d for d in os.listdir(SD) if os.path.exists(os.path.join(SD, d, 'patch.diff'))):
    meta = json.load(open(os.path.join(SD, name, 'meta.json'))) if os.path.exists(os.path.join(SD, name, 'meta.json')) else {}
    first = open(os.path.join(SD, name, 'notes.md')).readline().strip().lstrip('# ').strip() if os.path.exists(os.path.join(SD, name, 'notes.md')) else ''
    first = re.sub(r'^(C\d\d\s*)?(/\s*)?(seed,?\s*)?[Vv]ariant [A-Z]\s*[-:—]*\s*', '', first)
    first = re.sub(r'^C\d\d\s*[/,]?\s*(seed,?\s*)?variant [A-Z]\s*[-:—]*\s*', '', first)
    pid = meta.get('property', name.split('_')[0])
    res = sw.get(name, {}).get(pid)
    if not res:
        rows.append((name, meta.get('round', 1), first, '(not swept)', '', ''))
        continue
    refs = [l for l in res['lines'] if l.startswith('refuted')]
    first_ref = re.sub(r'^refuted obligation ', '', refs[0]).split(' :: ')[0] if refs else ''
    viol = [l for l in res['lines'] if l.startswith('VIOLATION')]
    how = ''
    if res['rc'] == 1:
        if not refs:
            bs = [l for l in res['lines'] if l.startswith('bounded stand-in')]
            un = [l for l in res['lines'] if l.startswith('undecided unit')]
            first_ref = ('bounded stand-in ' + bs[0].split()[2]) if bs else ('witness on the real code; unit not generated: ' + un[0].split('(obligations not generated: ')[-1][:70] if un else 'bounded stand-in / witness')
        wit = 'yes' if viol and 'no-failing-input-found' not in viol[0] else '—'
        how = 'detected'
    elif res['rc'] == 2:
        how, wit = '**undecided**', ''
        first_ref = (res['lines'][0] if res['lines'] else '')[:110]
    else:
        how, wit = '**missed**', ''
    rows.append((name, meta.get('round', 1), first[:120], how, '`%s`' % first_ref[:130] if first_ref else '', wit))
print('| seed | round | change | result | first refuted obligation / deciding leg | witness |')
print('|---|---|---|---|---|---|')
for r in rows:
    print('| %s | %s | %s | %s | %s | %s |' % r)
n = len(rows); det = len([r for r in rows if r[3] == 'detected'])
print('\n%d of %d detected.' % (det, n))
