#!/bin/bash
# confirm_pyseed.sh <seed-dir with patch.diff demo.py> : suite passes with patch; python demo fails with patch, passes without
set -u
SD=$(readlink -f "$1")
WT=/tmp/confirmpy_$$
git -C /repo worktree add -q --detach $WT HEAD || exit 3
export CARGO_NET_OFFLINE=true CARGO_TARGET_DIR=/tmp/confirm_target
cd $WT
PY=/opt/veriftools/pyvenv/bin/python
run_demo() { rm -rf /tmp/confirmpy_mod_$$; mkdir -p /tmp/confirmpy_mod_$$/bourse; cp $CARGO_TARGET_DIR/debug/libbourse.so /tmp/confirmpy_mod_$$/bourse/core.so; cp $CARGO_TARGET_DIR/debug/libbourse.so /tmp/confirmpy_mod_$$/core.so; touch /tmp/confirmpy_mod_$$/bourse/__init__.py; PYTHONPATH=/tmp/confirmpy_mod_$$ $PY "$SD/demo.py" $CARGO_TARGET_DIR/debug/libbourse.so > /tmp/confirmpy_$$.$1.log 2>&1; echo $?; }
git apply "$SD/patch.diff" || { echo APPLY-FAIL; cd /; git -C /repo worktree remove --force $WT; exit 3; }
cargo test --workspace --no-fail-fast --offline >/tmp/confirmpy_$$.suite.log 2>&1; SUITE=$?
cargo build -p bourse --offline >/dev/null 2>&1
WITH=$(run_demo with)
git checkout -q -- .
cargo build -p bourse --offline >/dev/null 2>&1
WITHOUT=$(run_demo without)
echo "suite_rc=$SUITE demo_with_patch_rc=$WITH demo_without_patch_rc=$WITHOUT"; tail -3 /tmp/confirmpy_$$.with.log
cd /; git -C /repo worktree remove --force $WT; rm -rf /tmp/confirmpy_$$.* /tmp/confirmpy_mod_$$
[ $SUITE -eq 0 ] && [ "$WITH" != "0" ] && [ "$WITHOUT" = "0" ] && echo CONFIRMED || echo NOT-CONFIRMED
