"""Mechanical extraction of /repo functions into a single-file Verus unit.

Reads the unit description and the contracts from contracts/<unit>.vc, re-reads the
listed source files from the repository working tree, applies the syntactic rewrite
rules (each application is logged), splices the ghost text at structural anchors and
writes build/<unit>.rs together with a line map.  Nothing here looks at line numbers
of the repository or at the names of locals.
"""
import os
import re
import json
import hashlib
from rsparse import (SourceFile, Body, Unsupported, is_tok, is_group, lex, find_pattern, flat_tokens, Tok, Group, estart, eend)

TAG_RE = re.compile(r'//\s*\[([^\]]+)\]\s*$')


class VcError(Exception):
    pass


class FnSpec:
    def __init__(self, names, tags, vcline):
        self.names, self.tags, self.vcline = names, tags, vcline
        self.ret = None
        self.attrs = []
        self.sig = None            # (text, vcline)
        self.ats = []              # (where, pattern, ordinal, text, vcline)
        self.loops = {}            # ordinal -> (iter_name, text, vcline)
        self.closures = {}         # ordinal -> (param decl, text, vcline)
        self.external_body = False
        self.body_tags = None      # tags of body obligations that carry no tag of their own (default: the function's tags)
        self.sig_replace = []      # (pattern, replacement)
        self.sig_extra = []        # further ensures clauses (text, file, line), appended after sig
        self.iter_rewrites = {}    # loop ordinal -> (kind, index name, length expr)
        self.filter_partition = {} # (filter closure ordinal, partition closure ordinal) -> ([contract, hint at body start, hint at body end], file, line)  (R15)
        self.map_collect_tail = {} # closure ordinal -> result type (tail-expression variant of R14) or None
        self.map_collect = {}      # closure ordinal -> ([contract, hint at body start, hint after push], file, line)  (R14)


class Vc:
    """Parsed contract file."""

    def __init__(self, path, defines=None):
        self.path = path
        self.unit = None
        self.sources = []
        self.header = []
        self.prelude = []          # (text, vcline, tags)
        self.postlude = []
        self.drops = []            # (matcher, reason)
        self.inherent = []         # trait path prefixes turned into inherent impls
        self.fns = {}              # qualified name -> FnSpec
        self.fn_order = []
        self.default_impls = []
        self.item_attrs = {}       # item name -> [attr text]
        self.derive_keep = {"Clone", "Copy", "PartialEq", "Eq"}
        self.structural = set()
        self.keep_pub = set()
        self.drop_tags = set(defines.get('drop_tags', [])) if defines else set()
        self.defs = set(defines.get('defs', [])) if defines else set()
        self.includes = []
        self.replace_types = []
        self.defines = defines or {}
        self.bases = []
        self.module = None
        self.strip_paths = set()
        self.corollaries = []      # (function name in prelude / postlude, tags, text): a verified function of the unit that is itself an obligation
        self._parse(path)

    def _expand(self, path, templates):
        """includes, templates and tag conditionals -> flat list of (text, file, line)"""
        out = []
        lines = open(path).read().split('\n')
        skipping = False
        tname = None
        for k, line in enumerate(lines):
            ln = k + 1
            s = line.strip()
            d = s[3:].strip() if s.startswith('//@') else None
            word = d.split()[0] if d else ''
            rest = d[len(word):].strip() if d else ''
            if word == 'end-template':
                tname = None
                continue
            if tname is not None:
                templates[tname].append((line, path, ln))
                continue
            if word == 'if-def':
                skipping = rest not in self.defs
                continue
            if word == 'if-ndef':
                skipping = rest in self.defs
                continue
            if word == 'endif':
                skipping = False
                continue
            if skipping:
                continue
            if word == 'template':
                tname = rest
                templates[tname] = []
                continue
            if word == 'include':
                inc = os.path.join(os.path.dirname(path), rest)
                self.includes.append(inc)
                out.extend(self._expand(inc, templates))
                continue
            if word == 'instantiate':
                parts = rest.split()
                subst = dict(x.split('=', 1) for x in parts[1:])
                keys = sorted(subst, key=len, reverse=True)
                for (tl, tp, tln) in templates[parts[0]]:
                    for kk in keys:
                        tl = tl.replace('$' + kk, subst[kk])
                    out.append((tl, tp, tln))
                continue
            if d is None:
                m = TAG_RE.search(line)
                if m and self.drop_tags and any(t.split('.')[-1] in self.drop_tags or t in self.drop_tags for t in m.group(1).split()):
                    out.append(('', path, ln))
                    continue
            out.append((line, path, ln))
        return out

    def _parse(self, path):
        lines = self._expand(path, {})
        cur = None          # (kind, info, file, startline)
        buf = []
        fn = None

        def flush():
            nonlocal buf, cur
            if cur is None:
                buf = []
                return
            kind, info, p, ln = cur
            text = '\n'.join(buf).rstrip('\n')
            if kind == 'header':
                self.header.append((text, p, ln))
            elif kind == 'prelude':
                self.prelude.append((text, p, ln))
            elif kind == 'postlude':
                self.postlude.append((text, p, ln))
            elif kind == 'sig':
                fn.sig = (text, p, ln)
            elif kind == 'sig+':
                fn.sig_extra.append((text, p, ln))
            elif kind == 'at':
                bad = ghost_only(text)
                if bad:
                    raise VcError("%s:%d hint text is not ghost-only: `%s`" % (p, ln, bad))
                fn.ats.append(info + (text, p, ln))
            elif kind == 'loop':
                fn.loops[info[0]] = (info[1], text, p, ln)
            elif kind == 'closure':
                fn.closures[info[0]] = (info[1], text, p, ln)
            elif kind == 'filterpartition':
                parts = text.split('\n---\n')
                for h in parts[1:]:
                    bad = ghost_only(h)
                    if bad:
                        raise VcError("%s:%d hint text is not ghost-only: `%s`" % (p, ln, bad))
                fn.filter_partition[info] = (parts, p, ln)
                fn.loops[2000 + info[0]] = (None, parts[0], p, ln)
            elif kind == 'mapcollect':
                parts = text.split('\n---\n')
                for h in parts[1:]:
                    bad = ghost_only(h)
                    if bad:
                        raise VcError("%s:%d hint text is not ghost-only: `%s`" % (p, ln, bad))
                fn.map_collect[info] = (parts, p, ln)
                fn.loops[1000 + info] = (None, parts[0], p, ln)       # the invariants are obligations of the function (table id loop100<k>)
            buf = []
            cur = None

        for (line, path, ln) in lines:
            s = line.strip()
            if not s.startswith('//@'):
                buf.append(line)
                continue
            d = s[3:].strip()
            if d.startswith('#'):
                buf.append('')
                continue
            word = d.split()[0] if d else ''
            rest = d[len(word):].strip()
            flush()
            if word == 'unit':
                self.unit = rest
            elif word == 'base':
                # units whose whole text (contracts + extracted sources, with bodies) is placed at the crate root, unverified in this unit:
                # the functions of this unit see them only through their contracts (verus --verify-module)
                self.bases = rest.split()
            elif word == 'module':
                self.module = rest
            elif word == 'strip-path':
                self.strip_paths.add(rest)
            elif word == 'source':
                self.sources.append(rest)
            elif word == 'corollary':
                m = re.match(r'(\w+)\s+\[([^\]]*)\]\s*(.*)$', rest)
                if not m:
                    raise VcError("%s:%d corollary needs `name [tags] text`" % (path, ln))
                self.corollaries.append((m.group(1), m.group(2).split(), m.group(3).strip()))
            elif word in ('header', 'prelude', 'postlude'):
                cur = (word, None, path, ln + 1)
            elif word == 'drop':
                m = re.match(r'(.*?)\s+:\s+(.*)$', rest)
                if not m:
                    raise VcError("%s:%d drop needs ` : reason`" % (path, ln))
                self.drops.append((m.group(1).strip(), m.group(2).strip()))
            elif word == 'inherent':
                self.inherent.append(rest)
            elif word == 'default-impl':
                self.default_impls.append(rest)
            elif word == 'keep-pub':
                self.keep_pub.add(rest)
            elif word == 'structural':
                self.structural.add(rest)
            elif word == 'replace-type':
                a, b = rest.split('=>')
                self.replace_types.append((a.strip(), b.strip()))
            elif word == 'item-attr':
                nm, at = rest.split(None, 1)
                self.item_attrs.setdefault(nm, []).append(at)
            elif word == 'fn':
                m = re.match(r'(.*?)(\[[^\]]*\])?\s*$', rest)
                names = m.group(1).split()
                tags = m.group(2)[1:-1].split() if m.group(2) else []
                fn = FnSpec(names, tags, ln)
                for nm in names:
                    if nm in self.fns:
                        raise VcError("%s:%d duplicate fn block %s" % (path, ln, nm))
                    self.fns[nm] = fn
                self.fn_order.append(fn)
            elif word == 'fn-extend':
                fn = self.fns[rest.split()[0]]
            elif word == 'sig+':
                cur = ('sig+', None, path, ln + 1)
            elif word == 'ret':
                fn.ret = rest
            elif word == 'attr':
                fn.attrs.append(rest)
            elif word == 'external_body':
                fn.external_body = True
            elif word == 'body-tags':
                fn.body_tags = rest.split()
            elif word == 'sig-replace':
                a, b = rest.split('=>')
                fn.sig_replace.append((a.strip().strip('`'), b.strip().strip('`')))
            elif word == 'sig':
                cur = ('sig', None, path, ln + 1)
            elif word == 'at':
                m = re.match(r'(entry|exit|before_tail)\s*$', rest)
                if m:
                    cur = ('at', (m.group(1), None, 0), path, ln + 1)
                else:
                    m = re.match(r'(before|after|block_start|block_end|loop_body_start|loop_body_end|before_loop|after_loop)\s+(?:`([^`]*)`\s*)?#?(\d+)?\s*$', rest)
                    if not m:
                        raise VcError("%s:%d bad anchor %r" % (path, ln, rest))
                    cur = ('at', (m.group(1), m.group(2), int(m.group(3) or (0 if 'loop' in m.group(1) else 1))), path, ln + 1)
            elif word == 'loop':
                m = re.match(r'(\d+)(?:\s+iter\s+(\w+))?\s*$', rest)
                if not m:
                    raise VcError("%s:%d bad loop directive" % (path, ln))
                cur = ('loop', (int(m.group(1)), m.group(2)), path, ln + 1)
            elif word == 'closure':
                m = re.match(r'(\d+)\s+(.*)$', rest)
                cur = ('closure', (int(m.group(1)), m.group(2).strip()), path, ln + 1)
            elif word == 'map-collect':
                # R14: `let NAME: T = RECV.iter_mut().enumerate().map(|(N, X)| { BODY }).collect();`
                #   -> `let mut NAME: T = Vec::new(); for N in 0..RECV.len() <contract> { let X = &RECV[N]; let v__ = { BODY }; NAME.push(v__); }`
                # the text that follows is the loop contract (invariant / decreases), optionally `---` + ghost text for the start of the body, `---` + ghost text after the push
                # variant `map-collect K tail TYPE`: the function's tail expression `RECV.iter().map(|x| E).collect()` of type TYPE
                #   -> `let mut v__: TYPE = Vec::new(); for k__ in 0..RECV.len() <contract> { let x = &RECV[k__]; let e__ = E; v__.push(e__); } v__`
                m = re.match(r'(\d+)(?:\s+tail\s+(.+))?\s*$', rest)
                if not m:
                    raise VcError("%s:%d bad map-collect directive" % (path, ln))
                cur = ('mapcollect', int(m.group(1)), path, ln + 1)
                fn.map_collect_tail[int(m.group(1))] = m.group(2).strip() if m.group(2) else None
            elif word == 'filter-partition':
                # R15: `let A = RECV.iter().filter(|X| F); let (B, C): (Vec<T>, Vec<T>) = A.into_iter().partition(|_| P);`
                #   -> `let mut B: Vec<T> = Vec::new(); let mut C: Vec<T> = Vec::new(); for k__ in 0..RECV.len() <contract> { let X = &&RECV[k__]; if F { if P { B.push(**X); } else { C.push(**X); } } }`
                m = re.match(r'(\d+)\s+(\d+)\s*$', rest)
                if not m:
                    raise VcError("%s:%d bad filter-partition directive" % (path, ln))
                cur = ('filterpartition', (int(m.group(1)), int(m.group(2))), path, ln + 1)
            elif word == 'for-index':
                # R6: `for P in E.iter_mut()` over an array of length N  ->  `for I in 0..N { let P = &mut E[I]; .. }`
                #     `for (I, P) in E.into_iter().enumerate().take(N)` / `.iter().enumerate()`  ->  `for I in 0..N { let P = E[I]; .. }`
                m = re.match(r'(\d+)\s+(\w+)\s+(.+)$', rest)
                fn.iter_rewrites[int(m.group(1))] = (m.group(2), m.group(3).strip())
            elif word == 'for-counter':
                # R6: `for (I, X) in E.into_iter().enumerate() { B }`  ->  `let mut I: usize = 0; for X in NAME: E { B; I = I + 1; }`
                m = re.match(r'(\d+)\s+(\w+)\s*$', rest)
                fn.iter_rewrites[int(m.group(1))] = ('@counter', m.group(2))
            elif word == 'end':
                pass
            else:
                raise VcError("%s:%d unknown directive %r" % (path, ln, word))
        flush()


GHOST_STARTS = ('proof', 'let ghost', 'assert', 'broadcast use', 'reveal', 'assume')


def ghost_only(text):
    """R9/R11 lint: spliced hint text may contain ghost statements only (proof blocks, `let ghost`, assertions, broadcast use).
    Returns the first offending statement or None.  (`assume` is reported separately by the assumption scan.)"""
    code = '\n'.join(l.split('//')[0] for l in text.split('\n'))
    depth = 0
    stmts, cur = [], ''
    for ch in code:
        if ch in '([{':
            depth += 1
        elif ch in ')]}':
            depth -= 1
        cur += ch
        if depth == 0 and (ch == ';' or ch == '}'):
            stmts.append(cur.strip())
            cur = ''
    if cur.strip():
        stmts.append(cur.strip())
    for st in stmts:
        st2 = st.lstrip(';').strip()
        if not st2:
            continue
        if not st2.startswith(GHOST_STARTS):
            return st2[:80]
    return None


class Out:
    """Output accumulator with a per-line origin map."""

    def __init__(self):
        self.lines = []
        self.origin = []

    def add(self, text, origin):
        """origin: dict with kind and, for multi-line text, the first line number"""
        for k, l in enumerate(text.split('\n')):
            self.lines.append(l)
            o = dict(origin)
            if 'line' in o:
                o['line'] = o['line'] + k
            self.origin.append(o)

    def add_segments(self, segs):
        """segs: list of (text, origin).  Lines are attributed to the segment of their first non-blank char."""
        cur_text = ''
        cur_origin = None
        for text, origin in segs:
            parts = text.split('\n')
            for k, p in enumerate(parts):
                if k > 0:
                    self.lines.append(cur_text)
                    self.origin.append(cur_origin or {'kind': 'blank'})
                    cur_text, cur_origin = '', None
                if p.strip() and cur_origin is None:
                    o = dict(origin)
                    if 'line' in o:
                        o['line'] = o['line'] + k
                    cur_origin = o
                cur_text += p
        self.lines.append(cur_text)
        self.origin.append(cur_origin or {'kind': 'blank'})


class Extractor:
    def __init__(self, repo, vc, log=None):
        self.repo = repo
        self.vc = vc
        self.rules = []        # applied rewrite rules: dicts
        self.warnings = []
        self.stubbed = []
        self.dropped = []
        self.functions = []    # dicts: name, file, line, contracted, tags
        self.used_fnspecs = set()
        self.out = Out()

    def rule(self, rid, path, line, what):
        self.rules.append({'rule': rid, 'file': path, 'line': line, 'what': what})

    # ------------------------------------------------------------ driver
    def emit_body(self, out):
        """prelude + extracted sources + postlude of this unit into `out` (no crate wrapper)"""
        vc = self.vc
        self.out = out
        for text, p, ln in vc.prelude:
            if getattr(self, 'as_base', False):
                # base unit: lemmas are proved in their own unit; here they are assumed by their statements (bodies skipped)
                text = re.sub(r'(?m)^(\s*)((?:pub\s+)?(?:broadcast\s+)?proof\s+fn\b)', r'\1#[verifier::external_body] \2', text)
            if vc.defines.get('canary') and not getattr(self, 'as_base', False):
                # vacuity canary of a corollary: at the marked point (after the last step, preconditions and invariants in force) `false` must NOT be provable
                text = text.replace('// [corollary-canary]', 'proof { assert(false); } // [canary]')
            self.out.add(text, {'kind': 'vc', 'file': p, 'line': ln, 'part': 'prelude', 'base': getattr(self, 'as_base', False)})
        for rel in vc.sources:
            path = os.path.join(self.repo, rel)
            sf = SourceFile(path)
            sf.rel = rel
            self.out.add("// ===== extracted from %s" % rel, {'kind': 'gen'})
            for it in sf.items:
                self.item(sf, it, "")
        for text, p, ln in vc.postlude:
            self.out.add(text, {'kind': 'vc', 'file': p, 'line': ln, 'part': 'postlude'})
        missing = [n for n in vc.fns if n not in self.used_fnspecs]
        if missing:
            raise Unsupported("contracted functions not found in the source (lost anchor): %s" % ', '.join(sorted(missing)))

    def run(self):
        vc = self.vc
        out = self.out
        seen_hdr = set()
        base_exs = []
        for b in vc.bases:
            bdefs = dict(vc.defines)
            bdefs.pop('canary', None)
            bvc = Vc(os.path.join(os.path.dirname(vc.path), b), bdefs)
            bex = Extractor(self.repo, bvc)
            bex.as_base = True
            base_exs.append(bex)
        for hv in [e.vc for e in base_exs] + [vc]:
            for text, p, ln in hv.header:
                for k, line in enumerate(text.split('\n')):
                    if line.strip() and line not in seen_hdr:
                        seen_hdr.add(line)
                        out.add(line, {'kind': 'vc', 'file': p, 'line': ln + k})
        out.add("verus! {", {'kind': 'gen'})
        for e in base_exs:
            out.add("// ===================== base unit %s: at the crate root, NOT verified in this unit (proved in its own unit; seen here through its contracts)" % e.vc.unit, {'kind': 'gen'})
            e.emit_body(out)
            for f in e.functions:
                f['base'] = e.vc.unit
            self.base_functions = getattr(self, 'base_functions', []) + e.functions
            self.rules.extend(dict(r, base=e.vc.unit) for r in e.rules)
            self.warnings.extend('[base %s] %s' % (e.vc.unit, w) for w in e.warnings)
        if vc.module:
            out.add("mod %s {" % vc.module, {'kind': 'gen'})
            out.add("use vstd::prelude::*;", {'kind': 'gen'})
            out.add("use super::*;", {'kind': 'gen'})
        self.emit_body(out)
        if vc.module:
            out.add("} // mod %s" % vc.module, {'kind': 'gen'})
        self.out.add("} // verus!", {'kind': 'gen'})
        self.out.add("fn main() {}", {'kind': 'gen'})
        return self

    def dropped_by(self, desc):
        for m, reason in self.vc.drops:
            if m == desc:
                return reason
        return None

    def item(self, sf, it, prefix):
        src = sf.src
        attrs_text = ' '.join(a[2] for a in it.attrs).replace(' ', '')
        if 'cfg(test)' in attrs_text:
            self.rule('R1', sf.rel, sf.line_of(it.start), 'drop #[cfg(test)] item %s' % (it.name,))
            return
        if 'cfg(feature="bourse_verif")' in attrs_text:
            self.rule('R1', sf.rel, sf.line_of(it.start), 'drop verification hook (feature bourse_verif, off in normal builds) item %s' % (it.name,))
            return
        k = it.kind
        if k == 'use':
            self.rule('R1', sf.rel, sf.line_of(it.start), 'drop use')
            return
        desc = self.describe(it, src)
        reason = self.dropped_by(desc)
        if reason is not None:
            self.dropped.append({'item': desc, 'file': sf.rel, 'line': sf.line_of(it.start), 'reason': reason})
            self.rule('R2', sf.rel, sf.line_of(it.start), 'drop %s (%s)' % (desc, reason))
            return
        if k in ('type', 'const'):
            self.emit_plain(sf, it)
        elif k in ('struct', 'enum'):
            self.emit_adt(sf, it)
        elif k == 'trait':
            raise Unsupported("trait %s is neither dropped nor supported (%s:%d)" % (it.name, sf.rel, sf.line_of(it.start)))
        elif k == 'impl':
            self.emit_impl(sf, it)
        elif k == 'fn':
            self.emit_fn_guarded(sf, it, prefix, indent='')
        elif k == 'mod':
            raise Unsupported("module %s not supported" % it.name)
        else:
            raise Unsupported("item kind %s not supported (%s:%d)" % (k, sf.rel, sf.line_of(it.start)))

    @staticmethod
    def describe(it, src):
        if it.kind == 'impl':
            if it.impl_trait:
                return "impl %s for %s" % (re.sub(r'\s+', '', it.impl_trait), it.impl_type)
            return "impl %s" % it.impl_type
        return "%s %s" % (it.kind, it.name)

    # ------------------------------------------------------------ simple items
    def strip_pub_edits(self, elems, edits):
        """R10: remove `pub` / `pub(..)` tokens found at any depth of an item (fields, fns)."""
        def rec(el):
            i = 0
            while i < len(el):
                e = el[i]
                if is_tok(e, 'pub'):
                    end = e.end
                    if i + 1 < len(el) and is_group(el[i + 1], '(') and el[i + 1].start == e.end:
                        end = el[i + 1].end
                        i += 1
                    edits.append((e.start, end, '', None))
                elif isinstance(e, Group):
                    rec(e.children)
                i += 1
        rec(elems)

    def path_edits(self, sf, elems, edits):
        """R7: crate::<mod>::X / super::<mod>::X / super::X -> X ; std::convert::TryFrom -> TryFrom."""
        toks = flat_tokens(elems)
        i = 0
        while i < len(toks):
            t = toks[i]
            if t.kind == 'ident' and t.text in self.vc.strip_paths and i + 1 < len(toks) and toks[i + 1].text == '::' and (i == 0 or toks[i - 1].text != '::'):
                # R7: sibling module prefix (`common::f`) -> `f` (single-file crate)
                edits.append((t.start, toks[i + 2].start if i + 2 < len(toks) else toks[i + 1].end, '', None))
                self.rule('R7', sf.rel, sf.line_of(t.start), 'path %s::… -> …' % t.text)
                i += 2
                continue
            if t.kind == 'ident' and t.text in ('crate', 'super') and i + 1 < len(toks) and toks[i + 1].text == '::':
                j = i
                # strip leading lowercase path segments
                while j + 1 < len(toks) and toks[j + 1].text == '::' and toks[j].kind == 'ident' and (toks[j].text in ('crate', 'super') or toks[j].text[0].islower()) and j + 2 < len(toks) and toks[j + 2].kind == 'ident':
                    # do not strip a function name (lowercase last segment followed by `(`)
                    if toks[j].text not in ('crate', 'super') and not (j + 3 < len(toks) and toks[j + 3].text == '::'):
                        break
                    j += 2
                if j > i:
                    edits.append((t.start, toks[j].start, '', None))
                    self.rule('R7', sf.rel, sf.line_of(t.start), 'path %s -> %s' % (sf.src[t.start:toks[j].end], toks[j].text))
                i = j + 1
                continue
            i += 1

    def format_edits(self, sf, elems, edits, q):
        """R16: `format!("PREFIX{ident}")` (one literal, a text prefix followed by ONE inline argument, nothing else) -> `fmt_key("PREFIX", ident)`.
        Verus has no `format!`; the stand-in `fmt_key` carries the assumed meaning of the macro for this shape: the prefix followed by the decimal
        rendering of the (unsigned integer) argument.  Any other `format!` shape is left alone (the verifier front end then rejects the unit: exit 2)."""
        def rec(el):
            i = 0
            while i < len(el):
                e = el[i]
                if is_tok(e, 'format', kind='ident') and i + 2 < len(el) and is_tok(el[i + 1], '!') and is_group(el[i + 2], '('):
                    inner = [c for c in el[i + 2].children]
                    if len(inner) == 1 and is_tok(inner[0], kind='string'):
                        m = re.fullmatch(r'"([A-Za-z0-9_ .:-]*)\{([A-Za-z_][A-Za-z0-9_]*)\}"', inner[0].text)
                        if m:
                            edits.append((e.start, el[i + 2].end, 'fmt_key("%s", %s)' % (m.group(1), m.group(2)), {'kind': 'rule', 'rule': 'R16'}))
                            self.rule('R16', sf.rel, sf.line_of(e.start), 'format!(%s) in %s -> fmt_key("%s", %s)' % (inner[0].text, q, m.group(1), m.group(2)))
                            i += 3
                            continue
                if is_tok(e, 'tqdm', kind='ident') and i + 2 < len(el) and is_tok(el[i + 1], '!') and is_group(el[i + 2], '('):
                    # R17: kdam's progress-bar wrapper `tqdm!(ITER)` -> `tqdm_iter(ITER)`: the stand-in yields the items of the wrapped iterator in order (assumed)
                    edits.append((e.start, el[i + 1].end, 'tqdm_iter', {'kind': 'rule', 'rule': 'R17'}))
                    self.rule('R17', sf.rel, sf.line_of(e.start), 'tqdm!(..) in %s -> tqdm_iter(..)' % q)
                    rec(el[i + 2].children)
                    i += 3
                    continue
                if isinstance(e, Group):
                    rec(e.children)
                i += 1
        rec(elems)

    def render(self, sf, start, end, edits):
        """Apply edits (start, end, text, origin) to src[start:end]; return segments."""
        src = sf.src
        edits = sorted(edits, key=lambda e: (e[0], e[1] - e[0] != 0, e[4] if len(e) > 4 else 0))
        segs = []
        pos = start
        for e in edits:
            s, t, text, origin = e[0], e[1], e[2], e[3]
            if s < pos:
                if s == t and s >= start:
                    pass
                else:
                    raise Unsupported("overlapping edits at %s:%d" % (sf.rel, sf.line_of(s)))
            if s > pos:
                segs.append((src[pos:s], {'kind': 'src', 'file': sf.rel, 'line': sf.line_of(pos)}))
            if text:
                segs.append((text, origin or {'kind': 'rule'}))
            pos = max(pos, t)
        if pos < end:
            segs.append((src[pos:end], {'kind': 'src', 'file': sf.rel, 'line': sf.line_of(pos)}))
        return segs

    def attr_edits(self, sf, it, edits, extra_derive=()):
        """R1: keep only derive(Clone, Copy, PartialEq, Eq); drop serde attributes and the rest."""
        for (s, e, text) in it.attrs:
            flat = text.replace(' ', '')
            m = re.match(r'#\[derive\((.*)\)\]$', flat, re.S)
            if m:
                names = [x for x in m.group(1).replace('\n', '').split(',') if x]
                keep = [x for x in names if x in self.vc.derive_keep]
                if 'Default' in names and it.name not in self.vc.default_impls:
                    raise Unsupported("derive(Default) on %s without a default-impl directive" % it.name)
                if it.name in self.vc.structural:
                    keep.append('Structural')
                new = ('#[derive(%s)]' % ', '.join(keep)) if keep else ''
                if new != text:
                    edits.append((s, e, new, {'kind': 'rule', 'rule': 'R1'}))
                    self.rule('R1', sf.rel, sf.line_of(s), 'derive list %s -> %s' % (','.join(names), ','.join(keep)))
            else:
                edits.append((s, e, '', None))
                self.rule('R1', sf.rel, sf.line_of(s), 'drop attribute %s' % text.split('\n')[0][:60])

    def inner_attr_edits(self, sf, group, edits):
        """drop #[serde..] / #[...] attributes on fields and variants"""
        el = group.children
        for i, e in enumerate(el):
            if is_tok(e, '#') and i + 1 < len(el) and is_group(el[i + 1], '['):
                edits.append((e.start, el[i + 1].end, '', None))
                self.rule('R1', sf.rel, sf.line_of(e.start), 'drop field attribute')

    def emit_plain(self, sf, it):
        edits = []
        self.strip_pub_edits(it.elems, edits)
        if it.vis:
            edits.append((it.vis[0], it.vis[1], '', None))
        for (s, e, text) in it.attrs:
            edits.append((s, e, '', None))
        self.out.add_segments(self.render(sf, it.start, it.end, self.dedup(edits)))

    @staticmethod
    def dedup(edits):
        seen = set()
        out = []
        for e in edits:
            key = (e[0], e[1], e[2])
            if key in seen:
                continue
            seen.add(key)
            out.append(e)
        return out

    def emit_adt(self, sf, it):
        edits = []
        self.attr_edits(sf, it, edits)
        if it.name not in self.vc.keep_pub:
            if it.vis:
                edits.append((it.vis[0], it.vis[1], '', None))
            self.strip_pub_edits(it.elems, edits)
        for e in it.elems:
            if isinstance(e, Group):
                self.inner_attr_edits(sf, e, edits)
        for at in self.vc.item_attrs.get(it.name, []):
            edits.append((it.kw_start, it.kw_start, at + '\n', {'kind': 'gen'}))
        # const generic defaults (`const LEVELS: usize = 10`) are kept: Verus accepts them
        self.out.add_segments(self.render(sf, it.start, it.end, self.dedup(edits)))
        if it.name in self.vc.default_impls:
            self.emit_default_impl(sf, it)

    def emit_default_impl(self, sf, it):
        """R12: #[derive(Default)] -> the field-wise impl it stands for."""
        body = it.body
        if body is not None:
            fields = []
            el = body.children
            i = 0
            while i < len(el):
                if is_tok(el[i], '#'):
                    i += 2
                    continue
                if is_tok(el[i], 'pub'):
                    i += 1
                    continue
                if is_tok(el[i], kind='ident') and i + 1 < len(el) and is_tok(el[i + 1], ':'):
                    fields.append(el[i].text)
                    while i < len(el) and not is_tok(el[i], ','):
                        i += 1
                i += 1
            init = "%s { %s }" % (it.name, ', '.join("%s: Default::default()" % f for f in fields))
        else:
            # tuple struct: count top-level commas in the paren group
            grp = [e for e in it.elems if is_group(e, '(')][0]
            n = 1 + sum(1 for e in grp.children if is_tok(e, ','))
            if grp.children and is_tok(grp.children[-1], ','):
                n -= 1
            init = "%s(%s)" % (it.name, ', '.join("Default::default()" for _ in range(n)))
        spec = self.vc.fns.get("%s::default" % it.name)
        sig = ''
        ret = 'Self'
        if spec is not None:
            self.used_fnspecs.add("%s::default" % it.name)
            if spec.ret:
                ret = "(%s: Self)" % spec.ret
            if spec.sig:
                sig = '\n' + spec.sig[0] + '\n'
        self.rule('R12', sf.rel, sf.line_of(it.start), 'derive(Default) on %s -> written-out impl' % it.name)
        txt = "impl Default for %s {\n    fn default() -> %s%s    { %s }\n}" % (it.name, ret, sig or ' ', init)
        origin = {'kind': 'vc', 'file': spec.sig[1], 'line': spec.sig[2] - 2, 'fn': "%s::default" % it.name, 'tags': spec.tags} if spec and spec.sig else {'kind': 'gen'}
        g0 = len(self.out.lines) + 1
        self.out.add(txt, origin)
        self.functions.append({'gen_start': g0, 'gen_end': len(self.out.lines), 'name': "%s::default" % it.name, 'file': sf.rel, 'line': sf.line_of(it.start), 'contracted': spec is not None,
                               'tags': spec.tags if spec else [], 'generated': 'R12'})

    # ------------------------------------------------------------ impls and functions
    def emit_impl(self, sf, it):
        src = sf.src
        hdr_s, hdr_e = it.header
        header = src[hdr_s:hdr_e]
        prefix = it.impl_type + "::"
        drop_assoc_types = False
        self_error = None
        if it.impl_trait:
            tr = re.sub(r'\s+', '', it.impl_trait)
            if any(tr.startswith(x) for x in self.vc.inherent):
                # R3: trait impl -> inherent impl
                m = re.match(r'(impl\s*(<.*?>)?\s*)', header, re.S)
                # find the `for` keyword position in the header tokens
                toks = [t for t in sf.toks if hdr_s <= t.start < hdr_e]
                depth = 0
                fpos = None
                started = False
                for t in toks[1:]:
                    if t.text == '<':
                        depth += 1
                    elif t.text == '>':
                        depth -= 1
                    elif t.text == '>>':
                        depth -= 2
                    elif t.text == 'for' and depth == 0:
                        fpos = t
                        break
                gen_end = toks[0].end
                if toks[1].text == '<':
                    depth = 0
                    for t in toks[1:]:
                        if t.text == '<':
                            depth += 1
                        elif t.text == '>':
                            depth -= 1
                        if depth == 0:
                            gen_end = t.end
                            break
                header = src[hdr_s:gen_end] + ' ' + src[fpos.end:hdr_e].lstrip()
                self.rule('R3', sf.rel, sf.line_of(hdr_s), 'impl %s for %s -> inherent impl' % (tr, it.impl_type))
                drop_assoc_types = True
            # else: keep as a trait impl (e.g. From), contracts must go through spec fns
        header = re.sub(r'\{\s*(\w+)\s*\}', r'\1', header)      # OrderBook<{ LEVELS }> -> OrderBook<LEVELS>
        self.out.add(header.rstrip() + " {", {'kind': 'src', 'file': sf.rel, 'line': sf.line_of(hdr_s)})
        for sub in it.items:
            if 'cfg(test)' in ' '.join(a[2] for a in sub.attrs).replace(' ', ''):
                self.rule('R1', sf.rel, sf.line_of(sub.start), 'drop #[cfg(test)] member %s%s' % (prefix, sub.name))
                continue
            if 'cfg(feature="bourse_verif")' in ' '.join(a[2] for a in sub.attrs).replace(' ', ''):
                self.rule('R1', sf.rel, sf.line_of(sub.start), 'drop verification hook (feature bourse_verif, off in normal builds) member %s%s' % (prefix, sub.name))
                continue
            if sub.kind == 'fn':
                q = prefix + sub.name
                reason = self.dropped_by("fn " + q)
                if reason is not None:
                    self.dropped.append({'item': 'fn ' + q, 'file': sf.rel, 'line': sf.line_of(sub.start), 'reason': reason})
                    self.rule('R2', sf.rel, sf.line_of(sub.start), 'drop fn %s (%s)' % (q, reason))
                    continue
                self.emit_fn_guarded(sf, sub, prefix, indent='    ', self_error=None)
            elif sub.kind == 'type' and drop_assoc_types:
                self.rule('R3', sf.rel, sf.line_of(sub.start), 'drop associated type %s' % sub.name)
                toks = [e for e in sub.elems]
                # remember what Self::Error meant
                self.assoc = getattr(self, 'assoc', {})
                eq = [i for i, e in enumerate(toks) if is_tok(e, '=')][0]
                self.assoc[(it.impl_type, sub.name)] = src[toks[eq + 1].start:toks[-2].end]
            elif sub.kind in ('type', 'const'):
                self.emit_plain(sf, sub)
            else:
                raise Unsupported("impl member %s not supported" % sub.kind)
        self.out.add("}", {'kind': 'src', 'file': sf.rel, 'line': sf.line_of(it.end - 1)})

    def emit_fn_guarded(self, sf, it, prefix, indent='', self_error=None):
        """emit_fn; when the body of a CONTRACTED function is outside the grammar of the rewrite rules (a rewrite pattern is no longer there, a lost loop / closure anchor),
        the function alone is emitted as a stub - contract kept, body not verified - and marked `extraction_failed`: its obligations count as not generated (undecided for the
        properties that depend on it), the rest of the unit is still verified."""
        marks = (len(self.out.lines), len(self.out.origin), len(self.functions), len(self.rules), len(self.warnings))
        forced = (self.vc.defines.get('stub_fns') or {})
        if (prefix + it.name) in forced and self.vc.fns.get(prefix + it.name) is not None and not getattr(self, 'as_base', False):
            # the verifier's front end rejected this function in an earlier pass of this run (e.g. a hint names a local that no longer exists): stub it, keep the rest
            self.emit_fn(sf, it, prefix, indent=indent, self_error=self_error, stub=True)
            self.functions[-1]['extraction_failed'] = forced[prefix + it.name]
            self.stubbed.append({'fn': prefix + it.name, 'reason': forced[prefix + it.name]})
            return
        try:
            return self.emit_fn(sf, it, prefix, indent=indent, self_error=self_error)
        except Unsupported as e:
            q = prefix + it.name
            if self.vc.fns.get(q) is None or getattr(self, 'as_base', False):
                raise
            del self.out.lines[marks[0]:]
            del self.out.origin[marks[1]:]
            del self.functions[marks[2]:]
            del self.rules[marks[3]:]
            del self.warnings[marks[4]:]
            self.emit_fn(sf, it, prefix, indent=indent, self_error=self_error, stub=True)
            self.functions[-1]['extraction_failed'] = str(e)
            self.stubbed.append({'fn': q, 'reason': str(e)})

    def emit_fn(self, sf, it, prefix, indent='', self_error=None, stub=False):
        src = sf.src
        q = prefix + it.name
        spec = self.vc.fns.get(q)
        if spec is not None:
            self.used_fnspecs.add(q)
        tags = spec.tags if spec else []
        finfo = {'name': q, 'file': sf.rel, 'line': sf.line_of(it.kw_start), 'contracted': spec is not None and spec.sig is not None, 'tags': tags, 'body_tags': (spec.body_tags if spec else None)}
        self.functions.append(finfo)
        if it.body is None:
            raise Unsupported("function %s without body" % q)
        finfo['skeleton'] = hashlib.sha256(skeleton(it.body).encode()).hexdigest()[:16]
        finfo['skeleton_text'] = skeleton(it.body)[:4000]
        sig_src = src[it.kw_start:it.body.start]
        finfo['readonly'] = ('&self' in sig_src.replace(' ', '')) and ('&mut' not in sig_src)
        edits = []
        for (s, e, text) in it.attrs:
            edits.append((s, e, '', None))
            self.rule('R1', sf.rel, sf.line_of(s), 'drop attribute %s on %s' % (text[:40], q))
        if it.vis:
            edits.append((it.vis[0], it.vis[1], '', None))
        sig_elems = [e for e in it.elems if e is not it.body]
        self.path_edits(sf, it.elems, edits)
        self.format_edits(sf, it.elems, edits, q)
        # Self::Error of a former trait impl
        assoc = getattr(self, 'assoc', {})
        toks = flat_tokens(it.elems)
        for i, t in enumerate(toks):
            if t.text == 'Self' and i + 2 < len(toks) and toks[i + 1].text == '::' and (prefix[:-2], toks[i + 2].text) in assoc:
                edits.append((t.start, toks[i + 2].end, assoc[(prefix[:-2], toks[i + 2].text)], {'kind': 'rule', 'rule': 'R3'}))
        origin_fn = lambda p, ln: {'kind': 'vc', 'file': p, 'line': ln, 'fn': q, 'tags': tags}
        if getattr(self, 'as_base', False) or stub:
            # base unit: the function is proved in its own unit; here only its contract is visible (body skipped by the verifier)
            edits.append((it.kw_start, it.kw_start, '#[verifier::external_body]\n' + indent, {'kind': 'gen'}, -6))
        base = getattr(self, 'as_base', False) or stub
        body = Body(it.body)
        if not stub:
            self.loop_guard_edits(sf, body, edits, q)
        if spec is not None and spec.iter_rewrites and not base:
            self.for_index_edits(sf, body, spec, edits, q)
        if spec is not None:
            for at in spec.attrs:
                edits.append((it.kw_start, it.kw_start, at + '\n' + indent, {'kind': 'gen'}, -5))
            if spec.external_body and not base:
                edits.append((it.kw_start, it.kw_start, '#[verifier::external_body]\n' + indent, {'kind': 'gen'}, -5))
                finfo['external_body'] = True
            # named return value
            if spec.ret:
                arrow = [e for e in sig_elems if is_tok(e, '->')]
                if not arrow:
                    raise Unsupported("%s: `ret` given but the function has no return type" % q)
                a = arrow[0]
                after = [e for e in sig_elems if e.start > a.start and not is_tok(e, 'where')]
                # type extends to the end of the signature (no where clauses on contracted fns)
                ts, te = after[0].start, after[-1].end
                edits.append((ts, ts, '(%s: ' % spec.ret, {'kind': 'gen'}, -1))
                edits.append((te, te, ')', {'kind': 'gen'}, 1))
            for pat, rep in spec.sig_replace:
                hits = [h for h in find_pattern(FakeGroup(sig_elems), pat)]
                if not hits:
                    raise Unsupported("%s: signature pattern %r not found" % (q, pat))
                for h in hits:
                    edits.append((h[0], h[1], rep, {'kind': 'rule', 'rule': 'sig-replace'}))
                    self.rule('R9', sf.rel, sf.line_of(h[0]), 'signature of %s: %s -> %s' % (q, pat, rep))
            if spec.sig:
                text, p, ln = spec.sig
                edits.append((it.body.start, it.body.start, '\n' + text + '\n' + indent, origin_fn(p, ln - 1), -2))
                for k, (xt, xp, xl) in enumerate(spec.sig_extra):
                    edits.append((it.body.start, it.body.start, xt + '\n' + indent, origin_fn(xp, xl), -1.9 + k * 0.01))
            if not base:
                self.anchor_edits(sf, it, body, spec, edits, q, origin_fn)
            if self.vc.defines.get('canary') and spec.sig and not spec.external_body and not base:
                # vacuity canary: with the function's preconditions in force `false` must NOT be provable at entry
                edits.append((it.body.open.end, it.body.open.end, '\n        proof { assert(false); } // [canary]\n', {'kind': 'canary', 'fn': q}, -9))
                finfo['canary'] = True
        if not base and spec is not None and spec.filter_partition:
            self.filter_partition_edits(sf, body, spec, edits, q, origin_fn)
        if not base and spec is not None and spec.map_collect:
            self.map_collect_edits(sf, body, spec, edits, q, origin_fn)
        if not base:
            self.closure_rewrites(sf, body, spec, edits, q, origin_fn)
        self.lint_dropped_tokens(sf, edits, q)
        segs = self.render(sf, it.start, it.end, self.dedup(edits))
        finfo['gen_start'] = len(self.out.lines) + 1
        self.out.add_segments([(indent, {'kind': 'gen'})] + segs)
        finfo['gen_end'] = len(self.out.lines)

    # adapter / macro names a control-flow rewrite rule is allowed to drop: they are what the rule desugars (DESIGN.md 3.1); everything else it removes from the source
    # must reappear in the text it inserts - otherwise the verified text would no longer say what the code says (the R6 `take(K)` hole of round 7)
    DROPPABLE = {'_', 'iter', 'iter_mut', 'into_iter', 'enumerate', 'take', 'map', 'collect', 'filter', 'partition', 'format', 'tqdm', 'in', 'for', 'let', 'mut'}

    def lint_dropped_tokens(self, sf, edits, q):
        src = sf.src
        inserted = ' '.join(e[2] for e in edits if e[2])
        words = set(re.findall(r'[A-Za-z_][A-Za-z0-9_]*|\d+', inserted))
        for e in edits:
            origin = e[3] or {}
            if e[0] >= e[1] or origin.get('kind') != 'rule' or origin.get('rule') not in ('R4', 'R5', 'R6', 'R14', 'R15', 'R16', 'R17'):
                continue
            for tok in re.findall(r'[A-Za-z_][A-Za-z0-9_]*|\d+', src[e[0]:e[1]]):
                if tok not in self.DROPPABLE and tok not in words:
                    raise Unsupported("%s: rewrite rule %s would drop the source token `%s` (%s:%d) without putting it back: the verified text would not say what the code says"
                                      % (q, origin.get('rule'), tok, sf.rel, sf.line_of(e[0])))

    def loop_guard_edits(self, sf, body, edits, q):
        """R4: `(A) & (B)` in a while guard -> `(A) && (B)`."""
        for lp in body.loops:
            if lp.kw.text != 'while':
                continue
            h = lp.head
            for i, e in enumerate(h):
                if is_tok(e, '&') and 0 < i < len(h) - 1 and is_group(h[i - 1], '(') and is_group(h[i + 1], '('):
                    edits.append((e.start, e.end, '&&', {'kind': 'rule', 'rule': 'R4'}))
                    self.rule('R4', sf.rel, sf.line_of(e.start), 'non-short-circuit & on bool in the while guard of %s -> &&' % q)

    def for_index_edits(self, sf, body, spec, edits, q):
        """R6: explicit index walk for `iter_mut()` / `into_iter().enumerate().take(N)` / `iter().enumerate()` loops over arrays."""
        src = sf.src
        for k, (idx, length) in spec.iter_rewrites.items():
            if k >= len(body.loops):
                raise Unsupported("%s: for-index loop %d not found" % (q, k))
            lp = body.loops[k]
            if lp.kw.text != 'for':
                raise Unsupported("%s: loop %d is not a for loop" % (q, k))
            h = lp.head
            pos_in = [i for i, e in enumerate(h) if is_tok(e, 'in')][0]
            pat = h[:pos_in]
            expr = h[pos_in + 1:]
            toks = [e.text if not is_group(e) else '()' for e in expr]
            tail = ''.join(toks)
            pat_src = src[pat[0].start:pat[-1].end]
            if idx == '@counter':
                j = len(expr)
                ok = j >= 6 and is_group(expr[j - 1], '(') and is_tok(expr[j - 2], 'enumerate') and is_tok(expr[j - 3], '.') \
                    and is_group(expr[j - 4], '(') and is_tok(expr[j - 5], 'into_iter') and is_tok(expr[j - 6], '.')
                inner = [e for e in pat[0].children if not is_tok(e, ',')] if (len(pat) == 1 and is_group(pat[0], '(')) else []
                if not ok or len(inner) != 2 or not is_tok(inner[0], kind='ident') or lp.stmt.kind == 'arm':
                    raise Unsupported("%s: loop %d is not `for (i, x) in E.into_iter().enumerate()` (R6)" % (q, k))
                cnt = inner[0].text
                item = src[inner[1].start:inner[1].end]
                base = src[expr[0].start:expr[j - 7].end]
                edits.append((lp.stmt.start, lp.stmt.start, 'let mut %s: usize = 0;\n        ' % cnt, {'kind': 'rule', 'rule': 'R6'}, -8))
                edits.append((pat[0].start, expr[-1].end, '%s in %s: %s' % (item, length, base), {'kind': 'rule', 'rule': 'R6'}))
                edits.append((lp.body.close.start, lp.body.close.start, '; %s = %s + 1;\n        ' % (cnt, cnt), {'kind': 'rule', 'rule': 'R6'}, 9))
                self.rule('R6', sf.rel, sf.line_of(lp.kw.start), 'for (%s, %s) in %s.into_iter().enumerate() -> explicit counter %s over `for %s in %s` in %s' % (cnt, item, base, cnt, item, base, q))
                continue
            def chain_start(names):
                # expr ends with .name1().name2()... ; returns index in expr where the chain starts, or None
                j = len(expr)
                for nm in reversed(names):
                    if j >= 3 and is_group(expr[j - 1], '(') and is_tok(expr[j - 2], nm) and is_tok(expr[j - 3], '.'):
                        j -= 3
                    else:
                        return None
                return j
            j = chain_start(['iter_mut'])
            take = None
            if j is None:
                j = chain_start(['iter_mut', 'take'])
                if j is not None:
                    # `.take(K)` of an N-element walk visits the first min(K, N) elements
                    take = src[expr[-1].children[0].start:expr[-1].children[-1].end] if expr[-1].children else None
                    if take is None:
                        j = None
            if j is not None:
                base = src[expr[0].start:expr[j - 1].end]
                new_head = '%s in 0..%s' % (idx, length) if take is None else '%s in 0..(if (%s) < %s { (%s) } else { %s })' % (idx, take, length, take, length)
                bind = ' let %s = &mut %s[%s];' % (pat_src, base, idx)
                what = 'for %s in %s.iter_mut() -> index walk %s in 0..%s' % (pat_src, base, idx, length)
            else:
                j = chain_start(['into_iter', 'enumerate', 'take']) or chain_start(['iter', 'enumerate']) or chain_start(['into_iter', 'enumerate'])
                if j is None or not (len(pat) == 1 and is_group(pat[0], '(')):
                    raise Unsupported("%s: loop %d is not an iter_mut / enumerate loop (R6)" % (q, k))
                base = src[expr[0].start:expr[j - 1].end]
                inner = [e for e in pat[0].children if not is_tok(e, ',')]
                if len(inner) != 2 or not is_tok(inner[0], kind='ident'):
                    raise Unsupported("%s: loop %d: enumerate pattern must be (index, item)" % (q, k))
                src_idx = inner[0].text
                item = src[inner[1].start:inner[1].end]
                by_ref = chain_start(['iter', 'enumerate']) is not None
                if chain_start(['into_iter', 'enumerate', 'take']) is not None:
                    # `.take(K)` of an N-element walk visits the first min(K, N) elements: K is taken FROM THE SOURCE, never from the contract file
                    take = src[expr[-1].children[0].start:expr[-1].children[-1].end] if expr[-1].children else None
                    if take is None:
                        raise Unsupported("%s: loop %d: take() without an argument" % (q, k))
                    new_head = '%s in 0..(if (%s) < %s { (%s) } else { %s })' % (src_idx, take, length, take, length)
                else:
                    new_head = '%s in 0..%s' % (src_idx, length)
                bind = ' let %s = %s%s[%s];' % (item, '&' if by_ref else '', base, src_idx)
                what = 'for (%s, %s) in %s%s -> index walk %s in 0..%s' % (src_idx, item, base, tail[len(''.join(toks[:j])):], src_idx, length)
            edits.append((pat[0].start, expr[-1].end, new_head, {'kind': 'rule', 'rule': 'R6'}))
            edits.append((lp.body.open.end, lp.body.open.end, bind, {'kind': 'rule', 'rule': 'R6'}, -8))
            # the length the contract file names must BE the length of the collection the source walks (checked by the verifier, not trusted)
            edits.append((lp.stmt.start, lp.stmt.start, 'proof { assert((%s)@.len() == (%s) as int); } // [R6.length]\n        ' % (base, length), {'kind': 'rule', 'rule': 'R6'}, -9))
            self.rule('R6', sf.rel, sf.line_of(lp.kw.start), what + ' in ' + q)

    def anchor_edits(self, sf, it, body, spec, edits, q, origin_fn):
        src = sf.src
        bg = it.body
        for (where, pat, ordn, text, p, ln) in spec.ats:
            pos = None
            if where == 'entry':
                pos = bg.open.end
            elif where == 'exit':
                pos = bg.close.start
                if body.root.stmts and body.root.stmts[-1].kind == 'tail' and spec.ret is None:
                    text = ';\n' + text
                    self.rule('R13', sf.rel, sf.line_of(pos), 'unit-typed tail expression of %s gets `;` so that ghost text can follow it' % q)
            elif where == 'before_tail':
                st = body.root.stmts[-1] if body.root.stmts else None
                pos = st.start if st is not None else bg.close.start
            elif where in ('loop_body_start', 'loop_body_end', 'before_loop', 'after_loop'):
                k = ordn if pat is None else ordn
                if k >= len(body.loops):
                    self.warnings.append("%s: anchor %s %d lost (function has %d loops)" % (q, where, k, len(body.loops)))
                    continue
                lp = body.loops[k]
                if where == 'loop_body_start':
                    pos = lp.body.open.end
                elif where == 'loop_body_end':
                    pos = lp.body.close.start
                elif where == 'before_loop':
                    pos = lp.stmt.start if lp.stmt.kind != 'arm' else None
                else:
                    pos = lp.stmt.end if lp.stmt.kind != 'arm' else None
                if pos is None:
                    self.warnings.append("%s: loop %d is a match arm expression; anchor %s skipped" % (q, k, where))
                    continue
            else:
                hits = find_pattern(bg, pat)
                if len(hits) < ordn:
                    self.warnings.append("%s: anchor %s `%s` #%d lost (hint skipped)" % (q, where, pat, ordn))
                    continue
                hs, he = hits[ordn - 1]
                if where in ('before', 'after'):
                    st = body.innermost_stmt(hs)
                    if st is None:
                        self.warnings.append("%s: no statement around `%s` #%d (hint skipped)" % (q, pat, ordn))
                        continue
                    if where == 'after' and st.kind == 'tail':
                        text = ';\n' + text
                        self.rule('R13', sf.rel, sf.line_of(st.end), 'unit-typed tail expression of a block in %s gets `;` so that ghost text can follow it' % q)
                    pos = st.start if where == 'before' else st.end
                else:
                    blk = body.innermost_block(hs)
                    pos = blk.group.open.end if where == 'block_start' else blk.group.close.start
                    if where == 'block_end' and blk.stmts and blk.stmts[-1].kind == 'tail':
                        text = ';\n' + text
                        self.rule('R13', sf.rel, sf.line_of(blk.stmts[-1].end), 'unit-typed tail expression of a block in %s gets `;` so that ghost text can follow it' % q)
            prio = 5 if where in ('exit', 'block_end', 'loop_body_end', 'after', 'after_loop') else -1
            edits.append((pos, pos, '\n' + text + '\n', origin_fn(p, ln - 1), prio + ln * 1e-6))
        for k, (iter_name, text, p, ln) in spec.loops.items():
            if k >= 1000:
                continue        # contract of a loop generated by R14 / R15 (map_collect_edits / filter_partition_edits)
            if k >= len(body.loops):
                self.warnings.append("%s: loop %d lost (invariant skipped)" % (q, k))
                continue
            lp = body.loops[k]
            if iter_name:
                if lp.kw.text != 'for':
                    raise Unsupported("%s: loop %d is not a for loop" % (q, k))
                intok = [e for e in lp.head if is_tok(e, 'in')][0]
                edits.append((intok.end, intok.end, ' %s:' % iter_name, {'kind': 'gen'}))
                self.rule('R9', sf.rel, sf.line_of(intok.start), 'ghost iterator name on the for loop of %s' % q)
            edits.append((lp.body.start, lp.body.start, '\n' + text + '\n', origin_fn(p, ln - 1), -2))

    def filter_partition_edits(self, sf, body, spec, edits, q, origin_fn):
        """R15: a lazily filtered slice partitioned into two vectors -> the index loop that evaluates filter predicate and partition predicate in the same interleaved order.
        Trusted: slice::Iter / Filter / partition visit the elements in order, evaluate the filter predicate once per element and the partition predicate once per
        element that passed, and extend the left vector when it returns true, else the right one (`Vec<T>: Extend<&T>` copies)."""
        src = sf.src
        for (k1, k2), (parts, p, ln) in spec.filter_partition.items():
            if max(k1, k2) >= len(body.closures):
                raise Unsupported("%s: filter-partition closures %d/%d not found" % (q, k1, k2))
            c1, c2 = body.closures[k1], body.closures[k2]
            s1, s2 = c1.stmt, c2.stmt
            shape = "%s: closures %d/%d are not `let A = RECV.iter().filter(|x| F); let (B, C): (Vec<T>, Vec<T>) = A.into_iter().partition(|_| P);` (R15)" % (q, k1, k2)
            e1, e2 = s1.elems, s2.elems
            blk = s1.block
            if s2.block is not blk or blk.stmts.index(s2) != blk.stmts.index(s1) + 1:
                raise Unsupported(shape)
            # statement 1
            ok = len(e1) >= 11 and is_tok(e1[0], 'let') and is_tok(e1[1], kind='ident') and is_tok(e1[2], '=')
            j = len(e1) - 1
            while ok and j > 0 and is_tok(e1[j], ';'):
                j -= 1
            ok = ok and is_group(e1[j], '(') and is_tok(e1[j - 1], 'filter') and is_tok(e1[j - 2], '.') and is_group(e1[j - 3], '(') and not e1[j - 3].children and is_tok(e1[j - 4], 'iter') and is_tok(e1[j - 5], '.')
            ok = ok and e1[j].children and e1[j].children[0] is c1.bar1 and len(c1.params) == 1 and is_tok(c1.params[0], kind='ident') and not (len(c1.body) == 1 and is_group(c1.body[0], '{'))
            if not ok:
                raise Unsupported(shape)
            a_name = e1[1].text
            recv = src[estart(e1[3]):eend(e1[j - 6])]
            x = c1.params[0].text
            f_src = src[estart(c1.body[0]):eend(c1.body[-1])]
            # statement 2
            ok = len(e2) >= 12 and is_tok(e2[0], 'let') and is_group(e2[1], '(') and is_tok(e2[2], ':') and is_group(e2[3], '(') and is_tok(e2[4], '=') and is_tok(e2[5], a_name)
            names = [c for c in e2[1].children if not is_tok(c, ',')] if ok else []
            ok = ok and len(names) == 2 and all(is_tok(c, kind='ident') for c in names)
            j = len(e2) - 1
            while ok and j > 0 and is_tok(e2[j], ';'):
                j -= 1
            ok = ok and j == 11 and is_group(e2[j], '(') and is_tok(e2[j - 1], 'partition') and is_tok(e2[j - 2], '.') and is_group(e2[j - 3], '(') and not e2[j - 3].children and is_tok(e2[j - 4], 'into_iter') and is_tok(e2[j - 5], '.')
            ok = ok and e2[j].children and e2[j].children[0] is c2.bar1 and len(c2.params) == 1 and is_tok(c2.params[0], '_') and not (len(c2.body) == 1 and is_group(c2.body[0], '{'))
            if not ok:
                raise Unsupported(shape)
            tys = src[e2[3].start + 1:e2[3].end - 1]
            depth, cut = 0, None
            for ci, ch in enumerate(tys):
                if ch in '<(':
                    depth += 1
                elif ch in '>)':
                    depth -= 1
                elif ch == ',' and depth == 0:
                    cut = ci
                    break
            if cut is None:
                raise Unsupported(shape)
            tb, tc = tys[:cut].strip(), tys[cut + 1:].strip().rstrip(',').strip()
            b_name, c_name = names[0].text, names[1].text
            p_src = src[estart(c2.body[0]):eend(c2.body[-1])]
            contract = parts[0]
            h0 = parts[1] if len(parts) > 1 else ''
            h1 = parts[2] if len(parts) > 2 else ''
            R = {'kind': 'rule', 'rule': 'R15'}
            base_ln = ln - 1
            edits.append((s1.start, s1.start, 'let mut %s: %s = Vec::new(); let mut %s: %s = Vec::new();\n        for k__ in 0..%s.len()' % (b_name, tb, c_name, tc, recv), R, -3))
            edits.append((s1.start, s1.start, '\n' + contract + '\n        ', origin_fn(p, base_ln), -2))
            edits.append((s1.start, s1.start, '{ let x0__ = &%s[k__]; let %s = &x0__;' % (recv, x), R, -1))
            if h0:
                edits.append((s1.start, s1.start, '\n' + h0 + '\n', origin_fn(p, base_ln + len(parts[0].split('\n')) + 1), -0.5))
            # the two predicates keep their source text (and origin); everything else of the two statements is replaced
            edits.append((s1.start, estart(c1.body[0]), ' if ', R, -0.2))
            edits.append((eend(c1.body[-1]), estart(c2.body[0]), ' { if ', R))
            tail = ' { %s.push(**%s); } else { %s.push(**%s); } }' % (b_name, x, c_name, x)
            edits.append((eend(c2.body[-1]), s2.end, tail, R, 1))
            if h1:
                edits.append((s2.end, s2.end, '\n' + h1 + '\n', origin_fn(p, base_ln + len(parts[0].split('\n')) + 1 + (len(h0.split('\n')) + 1 if h0 else 0)), 2))
            edits.append((s2.end, s2.end, ' }', R, 3))
            self.rule('R15', sf.rel, sf.line_of(s1.start), '%s.iter().filter(|%s| ..) partitioned into (%s, %s) in %s -> index loop evaluating both predicates in the same interleaved order' % (recv, x, b_name, c_name, q))

    def map_collect_edits(self, sf, body, spec, edits, q, origin_fn):
        """R14: `let NAME: T = RECV.iter_mut().enumerate().map(|(N, X)| { BODY }).collect();` -> an index loop that pushes the value of BODY.
        Trusted: IterMut / Enumerate / Map / collect visit the elements in order, each once, and collect the closure's values in that order.
        X is bound as a shared reference (BODY must not assign through it: checked syntactically)."""
        src = sf.src
        for k, (parts, p, ln) in spec.map_collect.items():
            if k >= len(body.closures):
                raise Unsupported("%s: map-collect closure %d not found" % (q, k))
            cl = body.closures[k]
            st = cl.stmt
            el = st.elems
            tail_ty = spec.map_collect_tail.get(k)
            if tail_ty:
                shape = "%s: closure %d is not in the tail expression `RECV.iter().map(|x| E).collect()` (R14)" % (q, k)
                j = len(el) - 1
                ok = st.kind == 'tail' and j >= 9 and is_group(el[j], '(') and not el[j].children and is_tok(el[j - 1], 'collect') and is_tok(el[j - 2], '.') and is_group(el[j - 3], '(') \
                    and is_tok(el[j - 4], 'map') and is_tok(el[j - 5], '.') and is_group(el[j - 6], '(') and not el[j - 6].children and is_tok(el[j - 7], 'iter') and is_tok(el[j - 8], '.')
                ok = ok and el[j - 3].children and el[j - 3].children[0] is cl.bar1 and len(cl.params) == 1 and is_tok(cl.params[0], kind='ident') \
                    and not (len(cl.body) == 1 and is_group(cl.body[0], '{')) and eend(cl.body[-1]) == eend(el[j - 3].children[-1])
                if not ok:
                    raise Unsupported(shape)
                recv = src[estart(el[0]):eend(el[j - 9])]
                x = cl.params[0].text
                contract = parts[0]
                h0 = parts[1] if len(parts) > 1 else ''
                R = {'kind': 'rule', 'rule': 'R14'}
                edits.append((st.start, st.start, 'let mut v__: %s = Vec::new();\n        for k__ in 0..%s.len()' % (tail_ty, recv), R, -3))
                edits.append((st.start, st.start, '\n' + contract + '\n        ', origin_fn(p, ln - 1), -2))
                edits.append((st.start, st.start, '{ let %s = &%s[k__];' % (x, recv), R, -1))
                if h0:
                    edits.append((st.start, st.start, '\n' + h0 + '\n', origin_fn(p, ln - 1 + len(parts[0].split('\n')) + 1), -0.5))
                edits.append((st.start, estart(cl.body[0]), ' let e__ = ', R, -0.2))
                edits.append((eend(cl.body[-1]), st.end, '; v__.push(e__); }\n        v__', R, 1))
                self.rule('R14', sf.rel, sf.line_of(st.start), '%s.iter().map(|%s| ..).collect() as the tail expression of %s -> index loop pushing the closure body\'s value' % (recv, x, q))
                continue
            shape = "%s: closure %d is not in a statement `let NAME: T = RECV.iter_mut().enumerate().map(|(n, x)| { .. }).collect();` (R14)" % (q, k)
            if not (len(el) > 8 and is_tok(el[0], 'let') and is_tok(el[1], kind='ident') and is_tok(el[2], ':')):
                raise Unsupported(shape)
            eq = [i for i, e in enumerate(el) if is_tok(e, '=')]
            if not eq:
                raise Unsupported(shape)
            eq = eq[0]
            mp = [i for i, e in enumerate(el) if is_tok(e, 'map') and i + 1 < len(el) and is_group(el[i + 1], '(') and el[i + 1].start <= cl.bar1.start < el[i + 1].end]
            if not mp:
                raise Unsupported(shape)
            i = mp[0]
            ok = i - 7 > eq and is_tok(el[i - 1], '.') and is_group(el[i - 2], '(') and is_tok(el[i - 3], 'enumerate') and is_tok(el[i - 4], '.') and is_group(el[i - 5], '(') \
                and is_tok(el[i - 6], 'iter_mut') and is_tok(el[i - 7], '.') and not el[i - 2].children and not el[i - 5].children
            ok = ok and i + 4 < len(el) and is_tok(el[i + 2], '.') and is_tok(el[i + 3], 'collect') and is_group(el[i + 4], '(') and not el[i + 4].children
            ok = ok and all(is_tok(e, ';') for e in el[i + 5:]) and len(cl.body) == 1 and is_group(cl.body[0], '{')
            inner = [e for e in cl.params[0].children if not is_tok(e, ',')] if (len(cl.params) == 1 and is_group(cl.params[0], '(')) else []
            ok = ok and len(inner) == 2 and all(is_tok(e, kind='ident') for e in inner)
            # the closure must be the whole argument of map(..)
            ok = ok and el[i + 1].children and el[i + 1].children[0] is cl.bar1 and eend(el[i + 1].children[-1]) == cl.body[0].end
            if not ok:
                raise Unsupported(shape)
            name = el[1].text
            ty = src[el[3].start:eend(el[eq - 1])]
            recv = src[estart(el[eq + 1]):eend(el[i - 8])]
            n, x = inner[0].text, inner[1].text
            btoks = flat_tokens([cl.body[0]])
            for j in range(len(btoks) - 2):
                if btoks[j].text == '*' and btoks[j + 1].text == x and btoks[j + 2].text in ('=', '+=', '-='):
                    raise Unsupported("%s: the closure assigns through `%s` (R14 binds it as a shared reference)" % (q, x))
            contract = parts[0]
            h0 = parts[1] if len(parts) > 1 else ''
            h1 = parts[2] if len(parts) > 2 else ''
            bopen, bclose = cl.body[0].open, cl.body[0].close
            edits.append((st.start, bopen.start, 'let mut %s: %s = Vec::new();\n        for %s in 0..%s.len()' % (name, ty, n, recv), {'kind': 'rule', 'rule': 'R14'}, -3))
            edits.append((bopen.start, bopen.start, '\n' + contract + '\n        ', origin_fn(p, ln - 1), -2))
            edits.append((bopen.start, bopen.start, '{ let %s = &%s[%s];' % (x, recv, n), {'kind': 'rule', 'rule': 'R14'}, -1))
            if h0:
                edits.append((bopen.start, bopen.start, '\n' + h0 + '\n', origin_fn(p, ln - 1 + len(parts[0].split('\n')) + 1), -0.5))
            edits.append((bopen.start, bopen.start, ' let v__ = ', {'kind': 'rule', 'rule': 'R14'}, -0.2))
            edits.append((bclose.end, st.end, '; %s.push(v__);' % name, {'kind': 'rule', 'rule': 'R14'}, 1))
            if h1:
                edits.append((st.end, st.end, '\n' + h1 + '\n', origin_fn(p, ln - 1 + len(parts[0].split('\n')) + 1 + (len(h0.split('\n')) + 1 if h0 else 0)), 2))
            edits.append((st.end, st.end, ' }', {'kind': 'rule', 'rule': 'R14'}, 3))
            self.rule('R14', sf.rel, sf.line_of(st.start), 'let %s = %s.iter_mut().enumerate().map(|(%s, %s)| ..).collect() in %s -> index loop pushing the closure body\'s value' % (name, recv, n, x, q))

    def closure_rewrites(self, sf, body, spec, edits, q, origin_fn):
        """R5: closure parameters that are patterns -> a named, typed parameter plus a `let` of the same pattern."""
        src = sf.src
        for k, cl in enumerate(body.closures):
            cspec = spec.closures.get(k) if spec is not None else None
            if cspec is None:
                # R5 without a contract: `|_|` -> `|_i: usize|` is only safe when a type is known; leave others alone
                continue
            decl, text, p, ln = cspec
            pname = decl.split(':')[0].strip()
            ptxt = src[cl.params[0].start:cl.params[-1].end] if cl.params else ''
            simple = len(cl.params) == 1 and is_tok(cl.params[0], kind='ident')
            edits.append((cl.bar1.end, cl.bar2.start, decl, {'kind': 'rule', 'rule': 'R5'}))
            self.rule('R5', sf.rel, sf.line_of(cl.bar1.start), 'closure parameter `%s` of %s -> `%s`' % (ptxt, q, decl))
            bind = ''
            if not simple or ptxt != pname:
                if ptxt != '_':
                    bind = 'let %s = %s; ' % (ptxt, pname)
            # spec text is `-> (o: T) requires .. ensures ..` optionally followed by a line `---` and proof text for the body start
            parts = text.split('\n---\n')
            sig = parts[0]
            hint = parts[1] if len(parts) > 1 else ''
            b0, b1 = cl.body[0].start, cl.body[-1].end
            if len(cl.body) == 1 and is_group(cl.body[0], '{'):
                edits.append((cl.bar2.end, cl.bar2.end, ' ' + sig + '\n', origin_fn(p, ln - 1)))
                if bind or hint:
                    edits.append((cl.body[0].open.end, cl.body[0].open.end, ' ' + bind + ('\n' + hint + '\n' if hint else ''), origin_fn(p, ln - 1)))
            else:
                edits.append((cl.bar2.end, cl.bar2.end, ' ' + sig + ' { ' + bind + (('\n' + hint + '\n') if hint else ''), origin_fn(p, ln - 1)))
                edits.append((b1, b1, ' }', {'kind': 'rule', 'rule': 'R5'}))


SKEL_KW = {'if', 'else', 'match', 'for', 'while', 'loop', 'return', 'break', 'continue', 'let', 'in'}


def skeleton(body_group):
    """Control-flow / call skeleton of a function body: keywords, `?`, match arms, names of called functions, methods and macros - and nothing else (no operands,
    fields, literals, operators, local names).  A change that leaves the skeleton alone is confined to expressions; one that alters it restructures the function."""
    toks = flat_tokens([body_group])
    out = []
    n = len(toks)
    for i, t in enumerate(toks):
        x = t.text
        if x in SKEL_KW:
            out.append(x)
        elif x == '?':
            out.append('?')
        elif x == '=>':
            out.append('=>')
        elif x == '!' and i > 0 and toks[i - 1].kind == 'ident' and i + 1 < n and toks[i + 1].text in ('(', '[', '{'):
            out.append('macro:' + toks[i - 1].text)
        elif x == '(' and i > 0 and toks[i - 1].kind == 'ident' and toks[i - 1].text not in SKEL_KW and not (i > 1 and toks[i - 2].text == 'fn'):
            out.append('call:' + toks[i - 1].text)
        elif x == '(' and i > 0 and toks[i - 1].text == '>' :
            # turbofish call  name::<T>(..): find the identifier before `::<`
            j = i - 1
            depth = 0
            while j >= 0:
                if toks[j].text == '>':
                    depth += 1
                elif toks[j].text == '<':
                    depth -= 1
                    if depth == 0:
                        break
                j -= 1
            if j >= 2 and toks[j - 1].text == '::' and toks[j - 2].kind == 'ident':
                out.append('call:' + toks[j - 2].text)
    return ' '.join(out)


class FakeGroup:
    def __init__(self, elems):
        self.children = elems


def build_unit(repo, vcpath, outdir, defines=None, variant=None):
    vc = Vc(vcpath, defines)
    ex = Extractor(repo, vc).run()
    name = vc.unit + (('_' + variant) if variant else '')
    os.makedirs(outdir, exist_ok=True)
    rs = os.path.join(outdir, name + '.rs')
    text = '\n'.join(ex.out.lines) + '\n'
    with open(rs, 'w') as f:
        f.write(text)
    meta = {
        'unit': name, 'vc': vcpath, 'sources': vc.sources, 'rules': ex.rules, 'warnings': ex.warnings, 'stubbed': getattr(ex, 'stubbed', []), 'dropped': ex.dropped,
        'functions': ex.functions, 'base_functions': getattr(ex, 'base_functions', []), 'module': vc.module,
        'origin': ex.out.origin, 'sha256': hashlib.sha256(text.encode()).hexdigest(),
    }
    with open(os.path.join(outdir, name + '.map.json'), 'w') as f:
        json.dump(meta, f)
    return rs, meta


if __name__ == '__main__':
    import sys
    rs, meta = build_unit(sys.argv[1], sys.argv[2], sys.argv[3])
    print(rs, len(meta['functions']), 'functions;', len(meta['rules']), 'rule applications;', len(meta['warnings']), 'warnings')
    for w in meta['warnings']:
        print('  warning:', w)
