#!/usr/bin/env python3
"""Regenerates MANIFEST.json from the table below (kept in one place so that it is always schema-valid)."""
import json, os, sys
ROOT = os.path.dirname(os.path.dirname(os.path.abspath(__file__)))
BOOK_NOTE = ('Assumed: soundness of Verus/Z3; vstd specifications of Vec/BTreeMap/Option; the assumed contracts listed in DESIGN.md 3.3 (BTreeMap::first_key_value returns a minimum key, '
             'core::cmp::min, core::array::from_fn, float operations total); the syntactic rewrite rules R1-R13 of DESIGN.md 3.1 (every application is listed in the evidence); '
             'validity preconditions of the property statement (ids exist, volumes >= 1, prices in range, totals < 2^32, clock monotone, clock discipline). Machine integers are NOT idealised. '
             'save_json/load_json, Display impls and get_orders are not under contract.')
PY_NOTE = BOOK_NOTE + ' Additionally assumed (stand-ins, listed in the evidence): PyO3 types are opaque; to_pyarray yields the slice elements in order; PyValueError::new_err / OrderError::to_string are opaque; Option::filter keeps the value iff the predicate holds; Xoroshiro128StarStar is an opaque RngCore.'
KANI_NOTE = 'Assumed: soundness of Kani 0.68 / CBMC 6.11; every RngCore output is arbitrary (SymRng) and every Distribution sample an arbitrary finite f64 (AnyDist), which covers all generators and distributions; stubs = the contracts of Env::place_order / cancel_order / order_status / OrderBook::mid_price (proved in the Verus units); f64::tanh modelled as sign-preserving, |y| <= 1, |y| >= 0.99 for |x| >= 3; termination is not proved by Kani; bounded harnesses are labelled bounded and never counted as proved.'
CHECKS = {
    'C01': ('proof', 'Verus: both match loops are proved equal to a recursive reference matcher (price-time priority, fill at the resting price, min volume) for an arbitrary well-formed book; '
            'place/create_and_place/process_event/cancel/modify carry `view(new) == ref_op(view(old))` postconditions; unbounded in history length, prices, volumes, LEVELS.',
            'Verus function contracts + loop invariants on code extracted from /repo each run; refinement of a recursive reference matcher', BOOK_NOTE),
    'C02': ('proof', 'Verus: representation invariant (priority map <-> resting set, per-level volume/count, side totals) re-established by every mutating function; every getter has a postcondition '
            'equating it with the value recomputed from the order list; the uncrossed clause is preserved while trading is on; mid_price is panic-free for every book in Verus, and Kani proves on the real method (bid_ask stubbed by its contract) that for all 2^64 pairs of touch prices - crossed ones included - it neither panics nor deviates from (bid+ask)/2 (after fix 42c41f8).',
            'Verus data-structure invariant + getter postconditions against an abstract view', BOOK_NOTE),
    'C03': ('proof', 'Verus: match_orders appends exactly one trade record with the passive order\'s price/side, book time, min volume and both ids; all matching paths carry a ledger postcondition '
            '(trades only appended, per-order volume lost == sum of its logged trades, trade_vol delta == sum of appended volumes); all other functions leave trades untouched.',
            'Verus postconditions over the trade sequence (prefix equality + recursive sums)', BOOK_NOTE),
    'C04': ('proof', 'Verus: every public operation ensures the allowed status arrows for every order, immutability of terminal orders and of id/side/trader, dense ids, arrival/end-time rules, '
            'and full observable equality (obs_eq) for redundant requests.', 'Verus per-operation lifecycle postconditions (forall over the order vector)', BOOK_NOTE),
    'C05': ('proof', 'Verus, proof of the negative: the book unit is verified again with every clock-discipline conjunct removed from the preconditions; every obligation of C01-C04, C06, C07 '
            'except the key-freshness premise at the six queue-insertion sites is still discharged, and that premise is refuted (genuine defect, recorded in known_findings.json with a history '
            'replayed on the real code). Any other refuted obligation is a VIOLATION. The environment-level clause (step overrun) is checked by the env unit when claimed.',
            'Verus on the contract set minus the clock-discipline precondition; known finding', BOOK_NOTE),
    'C06': ('proof', 'Verus: modify_order by cases - no-op, in-place volume reduction with the priority map unchanged, otherwise equality with the reference replace (remove, rewrite, re-match iff trading, '
            're-queue at time t behind equal prices) with id/side/trader/arr_time/start_vol kept; the `<` vs `<=` boundary is its own clause.', 'Verus case-split postconditions on modify/reduce/replace', BOOK_NOTE),
    'C07': ('proof', 'Verus: the index rebuild loop of TryFrom<OrderBookState> re-establishes the full invariant from the order list alone and copies every field, so the loaded book is the unique '
            'well-formed book with that view (lemma: wf determines the index). serde and file I/O are trusted / out of reach (stated in evidence).',
            'Verus loop invariant on the snapshot rebuild; serde trusted', BOOK_NOTE + ' serde round trip assumed field-wise; save_json/load_json (file I/O, truncation) are NOT covered by this check.'),
    'C08': ('proof', 'Verus: Env::step and MarketEnv::step carry a loop invariant over an arbitrary permutation q of the queue (all that is assumed of shuffle): after i iterations the book view equals '
            'run(reset(view0), q[..i], start) where run replays the instructions on the abstract book at times start+i using the reference event function; postcondition: queue empty, clock == start+step, '
            'exists q permutation with view == run(...) at start+step, step volume == book counter. Unbounded in batch length, assets, levels.',
            'Verus loop invariant over an assumed-permutation shuffle; fold of the reference event function', BOOK_NOTE + ' Additionally assumed: core::mem::take returns the old value and leaves an empty Vec; SliceRandom::shuffle yields SOME permutation of the slice (multiset equality) and nothing else; the generator is opaque; rewrite rule R6 (enumerate / iter_mut / take loops written as the counter or index walk they abbreviate). Batch validity (every instruction valid for the book it meets, batch no longer than the step size, no clock overflow) is the precondition, as in the property statement.'),
    'C10': ('proof', 'Verus: the three submit functions of Env and MarketEnv ensure that only the queue grows and (for placements) one New order is appended - trades, clock, flags, index, cached snapshot and all '
            'recorded series are unchanged (frame postconditions); create_order proves that every level-2 record valid for the old book is valid for the new one; the environment invariant '
            'cached == level-2 data of the live book is established by new, re-established by step and preserved by submissions and toggles.',
            'Verus frame postconditions + environment invariant', BOOK_NOTE + ' Additionally assumed: core::mem::take returns the old value and leaves an empty Vec; SliceRandom::shuffle yields SOME permutation of the slice (multiset equality) and nothing else; the generator is opaque; rewrite rule R6 (enumerate / iter_mut / take loops written as the counter or index walk they abbreviate). Batch validity (every instruction valid for the book it meets, batch no longer than the step size, no clock overflow) is the precondition, as in the property statement.'),
    'C11': ('proof', 'Verus: append_record ensures each of the 4+4N series == old series + the matching field of the record (bid from bid, ask from ask, level i from index i; generic N); step appends the '
            'level-2 data of the final book and the step counter, which equals the sum of the trades logged in the step, all stamped in [start, start+|batch|); invariant: all series have the length of the '
            'step-volume series.', 'Verus postconditions on the recording functions + loop invariants', BOOK_NOTE + ' Additionally assumed: core::mem::take returns the old value and leaves an empty Vec; SliceRandom::shuffle yields SOME permutation of the slice (multiset equality) and nothing else; the generator is opaque; rewrite rule R6 (enumerate / iter_mut / take loops written as the counter or index walk they abbreviate). Batch validity (every instruction valid for the book it meets, batch no longer than the step size, no clock overflow) is the precondition, as in the property statement.'),
    'C12': ('proof', 'Verus: create_order returns Ok iff the price is market or on the grid, Err leaves every observable unchanged; the grid predicate over all orders is preserved by every operation '
            'that does not take a new price from the caller.', 'Verus iff-postcondition + grid invariant', BOOK_NOTE),
    'C13': ('proof', 'Verus: with the trading flag off every operation leaves trades and trade_vol unchanged, limit placements/replacements rest at their price, market orders become Rejected with both '
            'sides untouched; the toggles change only the flag.', 'Verus postconditions conditional on the trading flag', BOOK_NOTE),
    'C14': ('proof', 'Verus: every Market operation on asset a ensures the book contract for books[a] and forall j != a: books[j] unchanged (frame); fan-out operations give every book the single-book effect; '
            'all-asset getters return element i == asset i\'s own value; MarketEnv::step: the market view after a shuffled batch equals the fold of per-asset reference events, and a proved projection lemma '
            'shows asset a\'s view equals a stand-alone book fed a\'s own instructions at the same global times.', 'Verus frame conditions over the book array + projection lemma', BOOK_NOTE + ' Additionally assumed: core::mem::take returns the old value and leaves an empty Vec; SliceRandom::shuffle yields SOME permutation of the slice (multiset equality) and nothing else; the generator is opaque; rewrite rule R6 (enumerate / iter_mut / take loops written as the counter or index walk they abbreviate). Batch validity (every instruction valid for the book it meets, batch no longer than the step size, no clock overflow) is the precondition, as in the property statement.'),
    'C18': ('proof', 'Verus, Rust side only: every #[pymethods] body of OrderBook / StepEnv / StepEnvNumpy within the extractor grammar is verified against the core contracts (a getter wired to the wrong side, a swapped '
            'argument, a dropped instruction or a changed price is a refuted postcondition); cast_order / cast_trade tuple positions and the Side/Status encodings are full-domain postconditions; off-grid '
            'prices give Err and leave the object unchanged. NOT covered (stated in the evidence): the PyO3 glue (argument extraction, OverflowError, exception raising), the compiled module under CPython, '
            'JSON interop, the list builders get_orders/get_trades (adapter chains) - for these a BOUNDED stand-in (labelled, not counted) drives the compiled module under CPython with 60 seeded call sequences.', 'Verus postconditions on the PyO3 method bodies against the core contracts', PY_NOTE),
    'C19': ('proof', 'Verus, Rust side only: the four observation-array builders are verified against the documented index table written as a spec sequence (lengths 9 and 45, element k == documented quantity), '
            'the history getters return bid series first; the market-data dictionary (HashMap/format!/closures) has no contract within reach: a BOUNDED stand-in (labelled, not counted) checks every key and series, and both arrays, through the compiled module under CPython on 40 seeded simulations; the two Python data-frame helpers (pandas is not installed) are unchecked.',
            'Verus postconditions against the documented layout as a spec sequence', PY_NOTE),
    'C20': ('proof', 'Verus on the REAL macro expansion: for a stated family of 20 shapes (1..8 fields, non-alphabetical names, repeated member types, members that are sets, field attributes incl. cfg, both macros) '
            'the struct is expanded by the working tree\'s derive macro (rustc -Zunpretty=expanded), the generated update body is cut out verbatim and verified: with members of UNINTERPRETED behaviour the set '
            'equals the left-to-right composition over the declared fields, each once, same env and rng; the generated signature is compared with the trait method.',
            'Verus on the macro expansion with uninterpreted member contracts; finite family of shapes', 'Assumed: Verus/Z3; rustc expansion output is the code that is compiled; syn/quote internals not verified; the shapes are a finite family (proof per shape, not for all shapes).'),
    'C16': ('proof', 'Kani on the real crates. COMPLETE (loop-free, full-domain, counted as proved): the four limit-order helpers (single- and multi-asset) with EVERY price distribution and EVERY generator output - '
            'buy price on the grid and <= the observed mid, sell price >= the mid and on the grid unless clamped, configured volume / trader / asset; thorough tier adds the two rounding functions over every '
            'f64 in range. BOUNDED stand-ins (labelled, never counted): cancel_live_orders on two orders (only listed Active orders, p=0 never, p>=1 always), Noise(Market)Agent::update and the momentum '
            'carry-over on one trader with every callee replaced by a recording stub that is its contract. Known finding: clamp to an off-grid Price::MAX aborts simulations.',
            'Kani loop-free full-domain harnesses (proof) + bounded Kani harnesses with contract stubs (stand-in)', KANI_NOTE),
    'C17': ('other', 'BOUNDED only (nothing counted as proved): Kani on the real MomentumAgent / MomentumMarketAgent::update, every callee stubbed by its contract, one trader, 2-4 calls, tanh replaced by a '
            'sign-preserving saturating model: falling mid -> exactly one sell, rising -> one buy (+ one buy limit order at ratio >= 1), flat -> nothing, signal carried over / reset by the documented recursion '
            '(decay 1/2). A refutation is accompanied by a witness search on the real agents with real generators.', 'bounded Kani harnesses on the real update bodies with contract stubs', KANI_NOTE),
}
NA = {
    'C09': 'Determinism across runs/processes is a 2-safety property of the whole program including rand, rand_distr, kdam and libm; function contracts can only restate `result == f(inputs)`, and both verifiers already assume executable Rust has no hidden inputs, so a contract proof would be vacuous about exactly the nondeterminism sources the property is about (DESIGN.md 5, C09).',
    'C15': 'A statement about the probability distribution of schedules; neither Verus nor Kani has a probabilistic semantics and the shuffle is rand::seq::SliceRandom (external). The contract-expressible part (the processing order is a permutation produced by one shuffle call with the supplied generator) is proved under C08 (DESIGN.md 5, C15).',
}
PENDING = {}
def main():
    claimed = json.load(open(os.path.join(ROOT, 'tools', 'claimed.json')))
    checks = []
    for pid in claimed['claimed']:
        level, text, tech, note = CHECKS[pid]
        checks.append({'property_id': pid, 'quick_cmd': './check %s --tier quick' % pid, 'thorough_cmd': './check %s --tier thorough' % pid,
                       'evidence_file': 'evidence/%s.json' % pid, 'replay_cmd_template': './check %s --replay {path}' % pid, 'engine': 'contracts',
                       'level_claimed': {'category': level, 'text': text, 'design_ref': 'DESIGN.md 5 ' + pid}, 'level_note': note, 'technique': tech})
    na = [{'property_id': k, 'reason': v} for k, v in NA.items()]
    for k, v in claimed.get('pending', {}).items():
        na.append({'property_id': k, 'reason': v})
    m = {'version': 1, 'setup_cmd': 'true',
         'hooks': {'guard': 'bourse_verif', 'enable': 'none needed: no hooks in /repo (private functions are reached by mechanical extraction, public ones through path dependencies)',
                   'baseline_off_cmd': 'cd /repo && cargo test --workspace --no-fail-fast --offline', 'source_commits': [], 'add_only': True},
         'engines': [{'name': 'contracts', 'path': 'tools/check.py', 'serves_properties': claimed['claimed'],
                      'kind_free_text': 'mechanical extraction of /repo functions + spliced contracts (contracts/*.vc) -> Verus single-file units; Kani harnesses on the real crates for float/bit-level clauses'}],
         'checks': checks, 'not_applicable': na,
         'notes': 'exit 2 = undecided (lost anchor, construct outside the extractor grammar, verifier front-end error, resource limit, unstable proof): never an alarm, never a pass.'}
    json.dump(m, open(os.path.join(ROOT, 'MANIFEST.json'), 'w'), indent=1)
    import jsonschema
    jsonschema.validate(m, json.load(open('/root/.vp/MANIFEST.schema.json')))
    print('MANIFEST.json written: %d checks, %d not_applicable' % (len(checks), len(na)))
main()
