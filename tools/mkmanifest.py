#!/usr/bin/env python3
"""Regenerates MANIFEST.json from the table below (kept in one place so that it is always schema-valid)."""
import json, os, sys
ROOT = os.path.dirname(os.path.dirname(os.path.abspath(__file__)))
BOOK_NOTE = ('Assumed: soundness of Verus/Z3; vstd specifications of Vec/BTreeMap/Option; the assumed contracts listed in DESIGN.md 3.3 (BTreeMap::first_key_value returns a minimum key, '
             'core::cmp::min, core::array::from_fn, float operations total); the syntactic rewrite rules R1-R14 of DESIGN.md 3.1 (every application is listed in the evidence); '
             'validity preconditions of the property statement (ids exist, volumes >= 1, prices in range, totals < 2^32, clock monotone, clock discipline). Machine integers are NOT idealised. '
             'save_json/load_json and Display impls are not under contract.')
PY_NOTE = BOOK_NOTE + ' Additionally assumed (stand-ins, listed in the evidence): PyO3 types are opaque; to_pyarray yields the slice elements in order; PyValueError::new_err / OrderError::to_string are opaque; Option::filter keeps the value iff the predicate holds; Xoroshiro128StarStar is an opaque RngCore.'
KANI_NOTE = 'Assumed: soundness of Kani 0.68 / CBMC 6.11; every RngCore output is arbitrary (SymRng) and every Distribution sample an arbitrary finite f64 (AnyDist), which covers all generators and distributions; stubs = the contracts of Env::place_order / cancel_order / order_status / OrderBook::mid_price (proved in the Verus units); f64::tanh modelled as sign-preserving, |y| <= 1, |y| >= 0.99 for |x| >= 3; termination is not proved by Kani; bounded harnesses are labelled bounded and never counted as proved.'
CHECKS = {
    'C01': ('proof', 'Verus: both match loops are proved equal to a recursive reference matcher (price-time priority, fill at the resting price, min volume) for an arbitrary well-formed book; '
            'place/create_and_place/process_event/cancel/modify carry `view(new) == ref_op(view(old))` postconditions; unbounded in history length, prices, volumes, LEVELS.',
            'Verus function contracts + loop invariants on code extracted from /repo each run; refinement of a recursive reference matcher', BOOK_NOTE),
    'C02': ('proof', 'Verus: representation invariant (priority map <-> resting set, per-level volume/count, side totals) re-established by every mutating function; every getter has a postcondition '
            'equating it with the value recomputed from the order list; the uncrossed clause is preserved while trading is on; mid_price is panic-free for every book in Verus, and Kani proves on the real method (bid_ask stubbed by its contract) that for all 2^64 pairs of touch prices - crossed ones included - it neither panics nor deviates from (bid+ask)/2 (after fix 42c41f8).',
            'Verus data-structure invariant + getter postconditions against an abstract view', BOOK_NOTE),
    'C03': ('proof', 'Verus: match_orders appends exactly one trade record with the passive order\'s price/side, book time, min volume and both ids; all matching paths carry a ledger postcondition '
            '(trades only appended, per-order volume lost == sum of its logged trades, trade_vol delta == sum of appended volumes); all other functions leave trades untouched.',
            'Verus postconditions over the trade sequence (prefix equality + recursive sums)', BOOK_NOTE),
    'C04': ('proof', 'Verus: every public operation ensures the allowed status arrows for every order, immutability of terminal orders and of id/side/trader, dense ids, arrival/end-time rules, '
            'and full observable equality (obs_eq) for redundant requests.', 'Verus per-operation lifecycle postconditions (forall over the order vector)', BOOK_NOTE),
    'C05': ('proof', 'Verus, proof of the negative: the book unit is verified again with every clock-discipline conjunct removed from the preconditions; every obligation of C01-C04, C06, C07 '
            'except the key-freshness premise at the six queue-insertion sites is still discharged, and that premise is refuted (genuine defect, recorded in known_findings.json with a history '
            'replayed on the real code). Any other refuted obligation is a VIOLATION. The environment-level clause (step overrun) is checked by the env unit when claimed.',
            'Verus on the contract set minus the clock-discipline precondition; known finding', BOOK_NOTE),
    'C06': ('proof', 'Verus: modify_order by cases - no-op, in-place volume reduction with the priority map unchanged, otherwise equality with the reference replace (remove, rewrite, re-match iff trading, '
            're-queue at time t behind equal prices) with id/side/trader/arr_time/start_vol kept; the `<` vs `<=` boundary is its own clause.', 'Verus case-split postconditions on modify/reduce/replace', BOOK_NOTE),
    'C07': ('proof', 'Verus: the index rebuild loop of TryFrom<OrderBookState> re-establishes the full invariant from the order list alone and copies every field, so the loaded book is the unique '
            'well-formed book with that view (lemma: wf determines the index). serde and file I/O are trusted / out of reach (stated in evidence).',
            'Verus loop invariant on the snapshot rebuild; serde trusted', BOOK_NOTE + ' serde round trip assumed field-wise; save_json/load_json (file I/O, truncation) are NOT covered by this check.'),
    'C08': ('proof', 'Verus: Env::step and MarketEnv::step carry a loop invariant over an arbitrary permutation q of the queue (all that is assumed of shuffle): after i iterations the book view equals '
            'run(reset(view0), q[..i], start) where run replays the instructions on the abstract book at times start+i using the reference event function; postcondition: queue empty, clock == start+step, '
            'exists q permutation with view == run(...) at start+step, step volume == book counter; the schedule is the one permutation `shuffled(queue, generator state)` and the generator is handed back as `shuffle_rng(queue, generator state)` (the step threads the supplied generator and nothing else). Unbounded in batch length, assets, levels.',
            'Verus loop invariant over an assumed-permutation shuffle; fold of the reference event function', BOOK_NOTE + ' Additionally assumed: core::mem::take returns the old value and leaves an empty Vec; SliceRandom::shuffle yields SOME permutation of the slice (multiset equality) and that permutation and the generator\'s next state are functions of the slice and the generator state (nothing about WHICH permutation); the generator is opaque; rewrite rule R6 (enumerate / iter_mut / take loops written as the counter or index walk they abbreviate). Batch validity (every instruction valid for the book it meets, batch no longer than the step size, no clock overflow) is the precondition, as in the property statement.'),
    'C10': ('proof', 'Verus: the three submit functions of Env and MarketEnv ensure that only the queue grows and (for placements) one New order is appended - trades, clock, flags, index, cached snapshot and all '
            'recorded series are unchanged (frame postconditions); create_order proves that every level-2 record valid for the old book is valid for the new one; the environment invariant '
            'cached == level-2 data of the live book is established by new, re-established by step and preserved by submissions and toggles.',
            'Verus frame postconditions + environment invariant', BOOK_NOTE + ' Additionally assumed: core::mem::take returns the old value and leaves an empty Vec; SliceRandom::shuffle yields SOME permutation of the slice (multiset equality) and that permutation and the generator\'s next state are functions of the slice and the generator state (nothing about WHICH permutation); the generator is opaque; rewrite rule R6 (enumerate / iter_mut / take loops written as the counter or index walk they abbreviate). Batch validity (every instruction valid for the book it meets, batch no longer than the step size, no clock overflow) is the precondition, as in the property statement.'),
    'C11': ('proof', 'Verus: append_record ensures each of the 4+4N series == old series + the matching field of the record (bid from bid, ask from ask, level i from index i; generic N); step appends the '
            'level-2 data of the final book and the step counter, which equals the sum of the trades logged in the step, all stamped in [start, start+|batch|); invariant: all series have the length of the '
            'step-volume series.', 'Verus postconditions on the recording functions + loop invariants', BOOK_NOTE + ' Additionally assumed: core::mem::take returns the old value and leaves an empty Vec; SliceRandom::shuffle yields SOME permutation of the slice (multiset equality) and that permutation and the generator\'s next state are functions of the slice and the generator state (nothing about WHICH permutation); the generator is opaque; rewrite rule R6 (enumerate / iter_mut / take loops written as the counter or index walk they abbreviate). Batch validity (every instruction valid for the book it meets, batch no longer than the step size, no clock overflow) is the precondition, as in the property statement.'),
    'C12': ('proof', 'Verus: create_order returns Ok iff the price is market or on the grid, Err leaves every observable unchanged; the grid predicate over all orders is preserved by every operation '
            'that does not take a new price from the caller.', 'Verus iff-postcondition + grid invariant', BOOK_NOTE),
    'C13': ('proof', 'Verus: with the trading flag off every operation leaves trades and trade_vol unchanged, limit placements/replacements rest at their price, market orders become Rejected with both '
            'sides untouched; the toggles change only the flag.', 'Verus postconditions conditional on the trading flag', BOOK_NOTE),
    'C14': ('proof', 'Verus: every Market operation on asset a ensures the book contract for books[a] and forall j != a: books[j] unchanged (frame); fan-out operations give every book the single-book effect; '
            'all-asset getters return element i == asset i\'s own value; MarketEnv::step: the market view after a shuffled batch equals the fold of per-asset reference events, and a proved projection lemma '
            'shows asset a\'s view equals a stand-alone book fed a\'s own instructions at the same global times.', 'Verus frame conditions over the book array + projection lemma', BOOK_NOTE + ' Additionally assumed: core::mem::take returns the old value and leaves an empty Vec; SliceRandom::shuffle yields SOME permutation of the slice (multiset equality) and that permutation and the generator\'s next state are functions of the slice and the generator state (nothing about WHICH permutation); the generator is opaque; rewrite rule R6 (enumerate / iter_mut / take loops written as the counter or index walk they abbreviate). Batch validity (every instruction valid for the book it meets, batch no longer than the step size, no clock overflow) is the precondition, as in the property statement.'),
    'C18': ('proof', 'Verus, Rust side only: every #[pymethods] body of OrderBook / StepEnv / StepEnvNumpy within the extractor grammar is verified against the core contracts (a getter wired to the wrong side, a swapped '
            'argument, a dropped instruction or a changed price is a refuted postcondition); cast_order / cast_trade tuple positions and the Side/Status encodings are full-domain postconditions; off-grid '
            'prices give Err and leave the object unchanged. NOT covered (stated in the evidence): the PyO3 glue (argument extraction, OverflowError, exception raising), the compiled module under CPython, '
            'JSON interop - for these a BOUNDED stand-in (labelled, not counted) drives the compiled module under CPython with 60 seeded call sequences. The list builders get_orders / get_trades (iter().map(cast_*).collect()) ARE verified against vstd\'s iterator specifications: element i is the documented tuple of order / trade i. A StepEnv is a function of its seed: the constructor seeds the generator from the seed, step() uses the schedule `shuffled(queue, generator)` and stores the generator that shuffle hands back.', 'Verus postconditions on the PyO3 method bodies against the core contracts', PY_NOTE),
    'C19': ('proof', 'Verus, Rust side only: the four observation-array builders are verified against the documented index table written as a spec sequence (lengths 9 and 45, element k == documented quantity), '
            'the history getters return bid series first; the market-data dictionary (HashMap/format!/closures) has no contract within reach: a BOUNDED stand-in (labelled, not counted) checks every key and series, and both arrays, through the compiled module under CPython on 40 seeded simulations; the two Python data-frame helpers (pandas is not installed) are unchecked.',
            'Verus postconditions against the documented layout as a spec sequence', PY_NOTE),
    'C20': ('proof', 'Verus on the REAL macro expansion: for a stated family of 28 shapes (1..8 fields, non-alphabetical names, repeated member types, members that are sets, field attributes incl. cfg, one-line structs without trailing comma, both macros) plus dictionary shapes generated on every run from the string literals of the macro crate\'s own source (each planted in doc comments, #[doc] attributes and field names) '
            'the struct is expanded by the working tree\'s derive macro (rustc -Zunpretty=expanded), the generated update body is cut out verbatim and verified: with members of UNINTERPRETED behaviour the set '
            'equals the left-to-right composition over the declared fields, each once, same env and rng; the generated signature is compared with the trait method.',
            'Verus on the macro expansion with uninterpreted member contracts; finite family of shapes', 'Assumed: Verus/Z3; rustc expansion output is the code that is compiled; syn/quote internals not verified; the shapes are a finite family (proof per shape, not for all shapes).'),
    'C16': ('proof', 'Verus (agents unit, unbounded in the number of traders / agents / orders) + Kani on the real crates. VERUS: the four limit-order helpers are verified against Env / MarketEnv::place_order - one order of the '
            'configured volume and trader quoted at round_down(mid - |draw|) / round_up(mid + |draw|) on the caller\'s grid, or an error that leaves no trace; the update loops of the noise and momentum agents '
            '(single- and multi-asset) submit only such orders, for their own trader ids, quoted from the mid-price they OBSERVED and their own grid, at most one limit and one market order per trader per call; the '
            'constructors give the consecutive trader ids, the environment tick size as the grid and a flat signal; RandomAgents / RandomMarketAgents (rule R14) keep one slot per agent: cancel only their own live order, '
            'place only when they hold no live order, prices tick * tick_size with tick and volume inside the configured ranges, own trader id. KANI COMPLETE (loop-free, full-domain): the numeric side of the same helpers - '
            'buy price on the grid and <= the observed mid, sell price >= the mid and on the grid unless clamped - with EVERY distribution and generator output; thorough tier adds the two rounding functions over every '
            'f64 in range. BOUNDED stand-ins (labelled, never counted): the probability thresholds (p = 0 never, p >= 1 always) of cancel_live_orders on two orders and of the update bodies on one trader. '
            'Known finding: clamp to an off-grid Price::MAX aborts simulations (the eight unwrap() calls).',
            'Verus contracts + loop invariants on the extracted agent code (helpers, constructors, six update loops) + Kani loop-free full-domain harnesses for the floating-point clauses; bounded Kani harnesses as stand-in for the probability thresholds', KANI_NOTE + ' Verus side: IEEE operations, tanh, abs, the two rounding functions, LogNormal::new and the generator draws are uninterpreted FUNCTIONS (no numeric fact assumed); cancel_live_orders(_market) carry an assumed contract (filter / partition adapters); rule R14 (iter_mut().enumerate().map().collect() -> index loop) is trusted.'),
    'C17': ('proof', 'Verus (agents unit, any number of traders): both momentum agents store exactly M\' = m (1 - decay) + decay (P - p) computed from the mid-price observed in the call (their own asset\'s, for the multi-asset agent) and remember P; '
            'the trading propensity is |demand * tanh(scale * M\') / n| (a function of the magnitude only) and the limit-order propensity its product with the order ratio; every order submitted in the call is a buy when M\' > 0, a sell when M\' < 0, '
            'and nothing is submitted otherwise; the constructors start from M = 0 with n = the number of traders. IEEE operations and tanh / abs are uninterpreted functions here (no numeric fact assumed). '
            'BOUNDED stand-ins (Kani on the real update bodies, one trader, 2-4 calls, callees stubbed by their contracts): the numeric thresholds - saturated demand trades exactly once per trader in the direction of M, a zero signal trades nothing, '
            'the signal is carried over / reset through the real floating-point recursion (decay 1/2).',
            'Verus contracts + loop invariants on the extracted momentum-agent code over uninterpreted IEEE operations; bounded Kani harnesses on the real update bodies for the numeric thresholds', KANI_NOTE + ' Verus side: float-determinism axiom (an IEEE operation is a function of its operands).'),
}
NA = {
    'C09': 'Determinism across runs/processes is a 2-safety property of the whole program including rand, rand_distr, kdam and libm; function contracts can only restate `result == f(inputs)`, and both verifiers already assume executable Rust has no hidden inputs, so a contract proof would be vacuous about exactly the nondeterminism sources the property is about (DESIGN.md 5, C09).',
    'C15': 'A statement about the probability distribution of schedules; neither Verus nor Kani has a probabilistic semantics and the shuffle is rand::seq::SliceRandom (external). The contract-expressible part (the processing order is a permutation produced by one shuffle call with the supplied generator) is proved under C08 (DESIGN.md 5, C15).',
}
PENDING = {}
def main():
    claimed = json.load(open(os.path.join(ROOT, 'tools', 'claimed.json')))
    checks = []
    for pid in claimed['claimed']:
        level, text, tech, note = CHECKS[pid]
        checks.append({'property_id': pid, 'quick_cmd': './check %s --tier quick' % pid, 'thorough_cmd': './check %s --tier thorough' % pid,
                       'evidence_file': 'evidence/%s.json' % pid, 'replay_cmd_template': './check %s --replay {path}' % pid, 'engine': 'contracts',
                       'level_claimed': {'category': level, 'text': text, 'design_ref': 'DESIGN.md 5 ' + pid}, 'level_note': note, 'technique': tech})
    na = [{'property_id': k, 'reason': v} for k, v in NA.items()]
    for k, v in claimed.get('pending', {}).items():
        na.append({'property_id': k, 'reason': v})
    m = {'version': 1, 'setup_cmd': 'true',
         'hooks': {'guard': 'bourse_verif', 'enable': 'none needed: no hooks in /repo (private functions are reached by mechanical extraction, public ones through path dependencies)',
                   'baseline_off_cmd': 'cd /repo && cargo test --workspace --no-fail-fast --offline', 'source_commits': [], 'add_only': True},
         'engines': [{'name': 'contracts', 'path': 'tools/check.py', 'serves_properties': claimed['claimed'],
                      'kind_free_text': 'mechanical extraction of /repo functions + spliced contracts (contracts/*.vc) -> Verus single-file units; Kani harnesses on the real crates for float/bit-level clauses'}],
         'checks': checks, 'not_applicable': na,
         'notes': 'exit 2 = undecided (lost anchor, construct outside the extractor grammar, verifier front-end error, resource limit, unstable proof): never an alarm, never a pass.'}
    json.dump(m, open(os.path.join(ROOT, 'MANIFEST.json'), 'w'), indent=1)
    import jsonschema
    jsonschema.validate(m, json.load(open('/root/.vp/MANIFEST.schema.json')))
    print('MANIFEST.json written: %d checks, %d not_applicable' % (len(checks), len(na)))
main()
