#!/usr/bin/env python3
"""seedrun.py <seed-dir> [props...] : apply a seeded change to /repo, run the checks, undo it straight afterwards."""
import subprocess, sys, json, os, time
sd = os.path.abspath(sys.argv[1]); props = sys.argv[2:]
meta_p = os.path.join(sd, 'meta.json')
meta = json.load(open(meta_p)) if os.path.exists(meta_p) else {}
if not props:
    props = [meta.get('property')]
assert subprocess.run(['git', '-C', '/repo', 'status', '--porcelain', '--untracked-files=no'], capture_output=True, text=True).stdout.strip() == '', '/repo not clean'
subprocess.run(['git', '-C', '/repo', 'apply', os.path.join(sd, 'patch.diff')], check=True)
out = {}
try:
    for p in props:
        t = time.time()
        r = subprocess.run(['/verif/check', p, '--tier', os.environ.get('TIER', 'quick')], capture_output=True, text=True, cwd='/verif')
        lines = [l for l in r.stdout.split('\n') if l.startswith(('VIOLATION', 'UNDECIDED', 'OK', 'KNOWN', 'refuted'))]
        out[p] = {'rc': r.returncode, 'lines': lines, 's': round(time.time() - t, 1)}
        print(os.path.basename(sd), p, 'rc=%d' % r.returncode, '%.0fs' % (time.time() - t))
        for l in lines[:8]:
            print('    ' + l[:220])
finally:
    subprocess.run(['git', '-C', '/repo', 'checkout', '--', '.'], check=True)
json.dump(out, open(os.path.join(sd, 'last_run.json'), 'w'), indent=1)
