#!/usr/bin/env python3
"""Development sweep: every seeded change against a list of checks, each on its own scratch worktree (REPO=..., VERIF_OUT=...).
seedsweep.py [-j N] [--props C01,C02] [seed names...]   -> prints a table, writes seeded/sweep.json"""
import subprocess, sys, json, os, time, argparse, shutil
from concurrent.futures import ThreadPoolExecutor
ap = argparse.ArgumentParser(); ap.add_argument('-j', type=int, default=3); ap.add_argument('--props'); ap.add_argument('seeds', nargs='*')
a = ap.parse_args()
TAG = str(os.getpid())
ROOT = os.path.dirname(os.path.dirname(os.path.abspath(__file__)))
SD = os.path.join(ROOT, 'seeded')
seeds = a.seeds or sorted(d for d in os.listdir(SD) if os.path.exists(os.path.join(SD, d, 'patch.diff')))
def one(name):
    d = os.path.join(SD, name)
    meta = json.load(open(os.path.join(d, 'meta.json'))) if os.path.exists(os.path.join(d, 'meta.json')) else {'property': name.split('_')[0]}
    props = a.props.split(',') if a.props else [meta['property']]
    wt = '/tmp/sweep_%s_%s' % (TAG, name)
    subprocess.run(['git', '-C', '/repo', 'worktree', 'remove', '--force', wt], capture_output=True)
    subprocess.run(['git', '-C', '/repo', 'worktree', 'add', '-q', '--detach', wt, 'HEAD'], check=True)
    out = {}
    try:
        subprocess.run(['git', '-C', wt, 'apply', os.path.join(d, 'patch.diff')], check=True)
        env = dict(os.environ, REPO=wt, VERIF_OUT='/tmp/sweep_out_%s_%s' % (TAG, name))
        for p in props:
            t = time.time()
            r = subprocess.run([os.path.join(ROOT, 'check'), p], capture_output=True, text=True, cwd=ROOT, env=env)
            lines = [l for l in r.stdout.split('\n') if l.startswith(('VIOLATION', 'UNDECIDED', 'OK', 'KNOWN', 'refuted', 'bounded stand-in', 'undecided unit'))]
            rc = r.returncode
            if rc == 1 and not any(l.startswith('VIOLATION') for l in lines):
                rc = 3      # the check itself crashed (no VIOLATION line): never counted as a detection
            out[p] = {'rc': rc, 'lines': lines[:10], 's': round(time.time() - t, 1)}
    finally:
        subprocess.run(['git', '-C', '/repo', 'worktree', 'remove', '--force', wt], capture_output=True)
        shutil.rmtree('/tmp/sweep_out_%s_%s' % (TAG, name), ignore_errors=True)
    return name, out
res = {}
with ThreadPoolExecutor(max_workers=a.j) as ex:
    for name, out in ex.map(one, seeds):
        res[name] = out
        try:
            _old = json.load(open(os.path.join(SD, 'sweep.json')))
        except Exception:
            _old = {}
        _old.update(res)
        json.dump(dict(sorted(_old.items())), open(os.path.join(SD, 'sweep.json'), 'w'), indent=1)
        print(name, ' '.join('%s=%d' % (p, v['rc']) for p, v in out.items()))
        for p, v in out.items():
            for l in v['lines']:
                if l.startswith(('refuted', 'UNDECIDED')): print('      [%s] %s' % (p, l[:200]))
old = {}
try:
    old = json.load(open(os.path.join(SD, 'sweep.json')))
except Exception:
    pass
old.update(res)
json.dump(dict(sorted(old.items())), open(os.path.join(SD, 'sweep.json'), 'w'), indent=1)
