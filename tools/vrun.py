"""Run Verus on a generated unit and turn its output into an obligation table."""
import json
import os
import re
import subprocess
import time

VERUS = os.environ.get('VERUS', 'verus')


def run_verus(rs, seed=0, rlimit=None, extra=(), threads=None, timeout=1800, funcs=None, multiple_errors=50, module=None):
    cmd = [VERUS, os.path.basename(rs), '--output-json', '--time', '--error-format=json', '--triggers-mode', 'silent',
           '--multiple-errors', str(multiple_errors), '--smt-option', 'smt.random_seed=%d' % seed]
    if rlimit:
        cmd += ['--rlimit', str(rlimit)]
    if threads:
        cmd += ['--num-threads', str(threads)]
    if module and not funcs:
        cmd += ['--verify-module', module]
    if funcs and module:
        cmd += ['--verify-only-module', module]
    elif funcs:
        cmd += ['--verify-root']
        for f in funcs:
            cmd += ['--verify-function', f]
    cmd += list(extra)
    t0 = time.time()
    try:
        p = subprocess.run(cmd, cwd=os.path.dirname(rs) or '.', capture_output=True, text=True, timeout=timeout)
        out, err, rc = p.stdout, p.stderr, p.returncode
    except subprocess.TimeoutExpired as e:
        out, err, rc = (e.stdout or b'').decode() if isinstance(e.stdout, bytes) else (e.stdout or ''), 'TIMEOUT', -9
    wall = time.time() - t0
    return {'cmd': ' '.join(cmd), 'stdout': out, 'stderr': err, 'rc': rc, 'wall_s': wall}


def parse(run, meta):
    """Returns dict: functions (name->{ms,rlimit,success,mode}), diagnostics [..], summary, frontend_error"""
    res = {'functions': {}, 'diagnostics': [], 'frontend_error': None, 'verified': 0, 'errors': 0, 'smt_ms': 0, 'total_ms': 0, 'version': None,
           'rlimit_hit': False}
    try:
        j = json.loads(run['stdout']) if run['stdout'].strip() else None
    except json.JSONDecodeError:
        j = None
    if j:
        vr = j.get('verification-results', {})
        res['verified'] = vr.get('verified', 0)
        res['errors'] = vr.get('errors', 0)
        res['encountered_error'] = vr.get('encountered-error', False)
        res['encountered_vir_error'] = vr.get('encountered-vir-error', False)
        tm = j.get('times-ms', {})
        res['total_ms'] = tm.get('total', 0)
        res['smt_ms'] = tm.get('smt', {}).get('total', 0)
        res['version'] = j.get('verus', {}).get('version')
        for mod in tm.get('smt', {}).get('smt-run-module-times', []):
            for fb in mod.get('function-breakdown', []):
                name = fb['function'].split('::', 1)[1] if '::' in fb['function'] else fb['function']
                if meta.get('module') and name.startswith(meta['module'] + '::'):
                    name = name[len(meta['module']) + 2:]
                res['functions'][name] = {'ms': fb.get('time', 0), 'rlimit': fb.get('rlimit', 0), 'success': fb.get('success', False), 'mode': fb.get('mode:', '')}
    origin = meta['origin']
    for line in run['stderr'].split('\n'):
        line = line.strip()
        if not line.startswith('{'):
            continue
        try:
            d = json.loads(line)
        except json.JSONDecodeError:
            continue
        if d.get('level') not in ('error',):
            continue
        msg = d.get('message', '')
        if msg.startswith('aborting due to'):
            continue
        spans = []
        for s in d.get('spans', []):
            ls, le = s['line_start'], s['line_end']
            o = origin[ls - 1] if 0 < ls <= len(origin) else {'kind': 'external', 'file': s.get('file_name')}
            fname = os.path.basename(s.get('file_name', ''))
            if fname and fname != os.path.basename(meta.get('rs', '')) and fname != meta['unit'] + '.rs':
                # a span inside vstd / core (e.g. the `requires` of Result::unwrap): not a line of the generated unit
                o = {'kind': 'external', 'file': s.get('file_name')}
            text = s['text'][0]['text'].strip() if s.get('text') else ''
            spans.append({'gen_line': ls, 'gen_line_end': le, 'primary': s.get('is_primary', False), 'label': s.get('label'), 'text': text, 'origin': o,
                          'file': s.get('file_name')})
        kind = 'verification'
        if d.get('code') or 'not yet support' in msg or 'is not supported' in msg or 'not supported' in msg or msg.startswith('cannot find') or 'mismatched types' in msg:
            kind = 'frontend'
        if 'rlimit' in msg or 'resource limit' in msg.lower() or 'timed out' in msg.lower():
            kind = 'rlimit'
            res['rlimit_hit'] = True
        res['diagnostics'].append({'message': msg, 'kind': kind, 'spans': spans, 'children': [c.get('message') for c in d.get('children', [])]})
    if j is None or res.get('encountered_vir_error') or (res.get('encountered_error') and not res['functions'] and res['errors'] == 0) or any(x['kind'] == 'frontend' for x in res['diagnostics']):
        fe = [x for x in res['diagnostics'] if x['kind'] == 'frontend'] or res['diagnostics']
        res['frontend_error'] = (fe[0]['message'] if fe else (run['stderr'][-2000:] or 'no JSON output'))
    return res


def enclosing_function(meta, gen_line, lines_cache={}):
    """Name of the extracted function containing a generated line (by scanning backwards for `fn name`)."""
    key = meta['unit']
    if key not in lines_cache:
        lines_cache[key] = None
    return None


def tags_of_lines(gen_lines_text, a, b):
    tags = []
    for k in range(a - 1, min(b, len(gen_lines_text))):
        m = re.search(r'//\s*\[([^\]]+)\]\s*$', gen_lines_text[k])
        if m:
            tags.extend(m.group(1).split())
    return tags
