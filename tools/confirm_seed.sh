#!/bin/bash
# confirm_seed.sh <seed-dir containing patch.diff demo.rs> <demo-crate-dir e.g. crates/order_book> 
# Confirms in a scratch worktree: patch applies, workspace tests pass with it, the demo fails with it and passes without it.
set -u
SD=$(readlink -f "$1"); CR=${2:-crates/order_book}
WT=/tmp/confirm_$$
git -C /repo worktree add -q --detach $WT HEAD || exit 3
export CARGO_NET_OFFLINE=true CARGO_TARGET_DIR=/tmp/confirm_target
cd $WT
res() { echo "$1" ; }
git apply --check "$SD/patch.diff" || { echo "APPLY-FAIL"; cd /; git -C /repo worktree remove --force $WT; exit 3; }
git apply "$SD/patch.diff"
cargo test --workspace --no-fail-fast --offline >/tmp/confirm_$$.suite.log 2>&1; SUITE=$?
PASSED=$(grep -E "^test result: ok" /tmp/confirm_$$.suite.log | awk '{s+=$4} END{print s}')
mkdir -p $CR/tests; cp "$SD/demo.rs" $CR/tests/seed_demo.rs
PKG=$(grep -m1 '^name' $CR/Cargo.toml | sed 's/.*"\(.*\)".*/\1/')
cargo test -p $PKG --test seed_demo --offline >/tmp/confirm_$$.with.log 2>&1; WITH=$?
git checkout -q -- . 
cargo test -p $PKG --test seed_demo --offline >/tmp/confirm_$$.without.log 2>&1; WITHOUT=$?
echo "suite_rc=$SUITE passed_total=$PASSED demo_with_patch_rc=$WITH demo_without_patch_rc=$WITHOUT"
tail -3 /tmp/confirm_$$.with.log | head -2
cd /; git -C /repo worktree remove --force $WT; rm -f /tmp/confirm_$$.*.log
[ $SUITE -eq 0 ] && [ $WITH -ne 0 ] && [ $WITHOUT -eq 0 ] && echo CONFIRMED || echo NOT-CONFIRMED
