"""Minimal Rust lexer / delimiter tree / item and statement splitter.

This is *not* a Rust parser.  It understands exactly as much structure as the
extractor needs to (i) cut a source file into items, (ii) find function
signatures and bodies, (iii) split bodies into statements / blocks / match arms /
loops / closures so that ghost text can be spliced at structural anchors.
Anything it does not understand raises Unsupported, which the check driver turns
into exit code 2 (undecided) - never into a pass and never into an alarm.
"""
import re


class Unsupported(Exception):
    pass


class Tok:
    __slots__ = ("kind", "text", "start", "end", "idx")

    def __init__(self, kind, text, start, end):
        self.kind, self.text, self.start, self.end = kind, text, start, end
        self.idx = -1

    def __repr__(self):
        return "Tok(%s,%r@%d)" % (self.kind, self.text, self.start)


def blank_comments(src):
    """Replace comments by spaces (newlines kept) so that offsets survive."""
    out = list(src)
    i, n = 0, len(src)
    while i < n:
        c = src[i]
        if c == '/' and i + 1 < n and src[i + 1] == '/':
            j = i
            while j < n and src[j] != '\n':
                out[j] = ' '
                j += 1
            i = j
        elif c == '/' and i + 1 < n and src[i + 1] == '*':
            depth, j = 1, i + 2
            while j < n and depth:
                if src.startswith('/*', j):
                    depth += 1
                    j += 2
                elif src.startswith('*/', j):
                    depth -= 1
                    j += 2
                else:
                    j += 1
            for k in range(i, j):
                if out[k] != '\n':
                    out[k] = ' '
            i = j
        elif c == '"':
            j = i + 1
            while j < n and src[j] != '"':
                j += 2 if src[j] == '\\' else 1
            i = j + 1
        elif c == 'r' and re.match(r'r#*"', src[i:i + 8]) and (i == 0 or not (src[i - 1].isalnum() or src[i - 1] == '_')):
            m = re.match(r'r(#*)"', src[i:])
            close = '"' + m.group(1)
            j = src.find(close, i + len(m.group(0)))
            if j < 0:
                raise Unsupported("unterminated raw string")
            i = j + len(close)
        elif c == "'":
            m = re.match(r"'(\\.[^']*|[^\\'])'", src[i:])
            if m:
                i += len(m.group(0))
            else:
                i += 1  # lifetime
        else:
            i += 1
    return ''.join(out)


PUNCT3 = ["<<=", ">>=", "...", "..="]
PUNCT2 = ["::", "->", "=>", "==", "!=", "<=", ">=", "&&", "||", "+=", "-=", "*=", "/=", "%=", "^=", "&=", "|=", "<<", "..", ">>"]
OPEN = {"(": ")", "[": "]", "{": "}"}
CLOSE = {")", "]", "}"}


def lex(src):
    """src must already have comments blanked."""
    toks = []
    i, n = 0, len(src)
    while i < n:
        c = src[i]
        if c.isspace():
            i += 1
            continue
        if c.isalpha() or c == '_':
            m = re.match(r'[A-Za-z_][A-Za-z0-9_]*', src[i:])
            t = m.group(0)
            if t in ('r', 'br', 'b') and i + len(t) < n and src[i + len(t)] in '"#\'':
                # raw / byte strings
                if t == 'b' and src[i + 1] == "'":
                    m2 = re.match(r"b'(\\.[^']*|[^\\'])'", src[i:])
                    toks.append(Tok('char', m2.group(0), i, i + len(m2.group(0))))
                    i += len(m2.group(0))
                    continue
                m2 = re.match(r'b?r(#*)"', src[i:])
                if m2:
                    close = '"' + m2.group(1)
                    j = src.find(close, i + len(m2.group(0))) + len(close)
                    toks.append(Tok('string', src[i:j], i, j))
                    i = j
                    continue
                if t == 'b' and src[i + 1] == '"':
                    j = i + 2
                    while src[j] != '"':
                        j += 2 if src[j] == '\\' else 1
                    toks.append(Tok('string', src[i:j + 1], i, j + 1))
                    i = j + 1
                    continue
            toks.append(Tok('ident', t, i, i + len(t)))
            i += len(t)
            continue
        if c.isdigit():
            if toks and toks[-1].text == '.' and not (len(toks) > 1 and toks[-2].kind == 'number' and False):
                m = re.match(r'\d+', src[i:])
            else:
                m = re.match(r'0x[0-9a-fA-F_]+[a-z0-9]*|0b[01_]+[a-z0-9]*|0o[0-7_]+[a-z0-9]*|\d[\d_]*(\.\d[\d_]*)?([eE][+-]?\d+)?(_?[a-z][a-z0-9]*)?|\d[\d_]*\.(?![.\w])', src[i:])
            t = m.group(0)
            toks.append(Tok('number', t, i, i + len(t)))
            i += len(t)
            continue
        if c == '"':
            j = i + 1
            while src[j] != '"':
                j += 2 if src[j] == '\\' else 1
            toks.append(Tok('string', src[i:j + 1], i, j + 1))
            i = j + 1
            continue
        if c == "'":
            m = re.match(r"'(\\.[^']*|[^\\'])'", src[i:])
            if m:
                toks.append(Tok('char', m.group(0), i, i + len(m.group(0))))
                i += len(m.group(0))
            else:
                m = re.match(r"'[A-Za-z_][A-Za-z0-9_]*", src[i:])
                if not m:
                    raise Unsupported("bad quote at %d" % i)
                toks.append(Tok('lifetime', m.group(0), i, i + len(m.group(0))))
                i += len(m.group(0))
            continue
        if c in OPEN:
            toks.append(Tok('open', c, i, i + 1))
            i += 1
            continue
        if c in CLOSE:
            toks.append(Tok('close', c, i, i + 1))
            i += 1
            continue
        s3, s2 = src[i:i + 3], src[i:i + 2]
        if s3 in PUNCT3:
            toks.append(Tok('punct', s3, i, i + 3))
            i += 3
        elif s2 in PUNCT2:
            toks.append(Tok('punct', s2, i, i + 2))
            i += 2
        else:
            toks.append(Tok('punct', c, i, i + 1))
            i += 1
    for k, t in enumerate(toks):
        t.idx = k
    return toks


class Group:
    """A delimited group; children are Tok or Group."""
    __slots__ = ("open", "close", "children")

    def __init__(self, open_tok):
        self.open, self.close, self.children = open_tok, None, []

    @property
    def start(self):
        return self.open.start

    @property
    def end(self):
        return self.close.end

    @property
    def delim(self):
        return self.open.text

    def __repr__(self):
        return "Group(%s@%d..%d)" % (self.delim, self.start, self.end)


def tree(toks):
    root = []
    stack = [root]
    gstack = []
    for t in toks:
        if t.kind == 'open':
            g = Group(t)
            stack[-1].append(g)
            stack.append(g.children)
            gstack.append(g)
        elif t.kind == 'close':
            if not gstack or OPEN[gstack[-1].delim] != t.text:
                raise Unsupported("unbalanced delimiter at %d" % t.start)
            gstack.pop().close = t
            stack.pop()
        else:
            stack[-1].append(t)
    if gstack:
        raise Unsupported("unclosed delimiter at %d" % gstack[-1].start)
    return root


def is_tok(e, text=None, kind=None):
    return isinstance(e, Tok) and (text is None or e.text == text) and (kind is None or e.kind == kind)


def is_group(e, delim=None):
    return isinstance(e, Group) and (delim is None or e.delim == delim)


def estart(e):
    return e.start


def eend(e):
    return e.end


# ----------------------------------------------------------------- items

class Item:
    def __init__(self):
        self.kind = None        # use, mod, type, const, struct, enum, trait, impl, fn, macro, other
        self.name = None
        self.attrs = []         # list of (start, end, text)
        self.vis = None         # (start, end) of the visibility qualifier or None
        self.start = self.end = None    # whole item including attrs
        self.kw_start = None    # start of the keyword (after attrs / vis)
        self.elems = None       # elements from kw to end
        self.body = None        # Group for fn/impl/struct/enum/trait/mod bodies
        self.items = None       # inner items of impl / trait / mod
        self.impl_trait = None  # text of trait path for trait impls
        self.impl_type = None   # text of the implementing type (first identifier)
        self.header = None      # (start, end) offsets of impl / fn header (kw .. before body)
        self.parent = None


ITEM_KW = {"use", "mod", "type", "const", "static", "struct", "enum", "trait", "impl", "fn", "macro_rules", "extern", "unsafe", "async", "union"}


def parse_items(elems, src, parent=None):
    items = []
    i, n = 0, len(elems)
    while i < n:
        it = Item()
        it.parent = parent
        it.start = estart(elems[i])
        # attributes
        while i < n and is_tok(elems[i], '#'):
            j = i + 1
            if j < n and is_tok(elems[j], '!'):
                j += 1
            if j < n and is_group(elems[j], '['):
                it.attrs.append((elems[i].start, elems[j].end, src[elems[i].start:elems[j].end]))
                i = j + 1
            else:
                raise Unsupported("stray # at %d" % elems[i].start)
        if i >= n:
            break
        if is_tok(elems[i], 'pub'):
            vs = elems[i].start
            ve = elems[i].end
            i += 1
            if i < n and is_group(elems[i], '('):
                ve = elems[i].end
                i += 1
            it.vis = (vs, ve)
        it.kw_start = estart(elems[i])
        k0 = i
        # qualifiers
        while i < n and is_tok(elems[i]) and elems[i].text in ("const", "unsafe", "async", "extern", "default") and i + 1 < n and \
                (is_tok(elems[i + 1]) and elems[i + 1].text in ("fn", "unsafe", "async", "extern", "impl", "trait") or (elems[i].text == "extern" and is_tok(elems[i + 1], kind='string'))):
            i += 1
            if is_tok(elems[i], kind='string'):
                i += 1
        if i >= n or not is_tok(elems[i]):
            raise Unsupported("cannot parse item at offset %d" % it.kw_start)
        kw = elems[i].text
        if kw not in ITEM_KW:
            raise Unsupported("unknown item keyword %r at %d" % (kw, elems[i].start))
        it.kind = kw
        if kw in ("use", "type", "const", "static", "extern"):
            j = i
            while j < n and not is_tok(elems[j], ';'):
                j += 1
            if j >= n:
                raise Unsupported("unterminated %s" % kw)
            if kw != "use" and i + 1 < n and is_tok(elems[i + 1], kind='ident'):
                it.name = elems[i + 1].text
            it.elems = elems[k0:j + 1]
            it.end = elems[j].end
            i = j + 1
        elif kw == "macro_rules":
            j = i + 3
            it.name = elems[i + 2].text
            it.elems = elems[k0:j + 1]
            it.end = elems[j].end
            i = j + 1
            if i < n and is_tok(elems[i], ';'):
                it.end = elems[i].end
                i += 1
        else:
            # scan to the first brace group at this level or a ';'
            j = i + 1
            if kw in ("struct", "enum", "trait", "mod", "fn", "union"):
                it.name = elems[i + 1].text
            adepth = 0
            while j < n and not (is_group(elems[j], '{') and adepth <= 0) and not is_tok(elems[j], ';'):
                if is_tok(elems[j], '<'):
                    adepth += 1
                elif is_tok(elems[j], '>'):
                    adepth -= 1
                elif is_tok(elems[j], '>>'):
                    adepth -= 2
                j += 1
            if j >= n:
                raise Unsupported("unterminated item %s" % kw)
            it.header = (estart(elems[k0]), estart(elems[j]))
            if is_group(elems[j], '{'):
                it.body = elems[j]
            it.elems = elems[k0:j + 1]
            it.end = eend(elems[j])
            if kw == "impl":
                parse_impl_header(it, elems[i + 1:j], src)
                it.items = parse_items(it.body.children, src, it)
            elif kw in ("trait", "mod") and it.body is not None:
                it.items = parse_items(it.body.children, src, it)
            i = j + 1
        items.append(it)
    return items


def parse_impl_header(it, hdr, src):
    # skip generics <...> directly after impl
    k = 0
    if k < len(hdr) and is_tok(hdr[k], '<'):
        depth = 0
        while k < len(hdr):
            if is_tok(hdr[k], '<'):
                depth += 1
            elif is_tok(hdr[k], '>'):
                depth -= 1
            elif is_tok(hdr[k], '>>'):
                depth -= 2
            k += 1
            if depth == 0:
                break
    rest = hdr[k:]
    # find top-level `for`
    depth = 0
    fpos = None
    for q, e in enumerate(rest):
        if is_tok(e, '<'):
            depth += 1
        elif is_tok(e, '>'):
            depth -= 1
        elif is_tok(e, '>>'):
            depth -= 2
        elif is_tok(e, 'for') and depth == 0:
            fpos = q
            break
    if fpos is not None:
        it.impl_trait = src[estart(rest[0]):eend(rest[fpos - 1])]
        ty = rest[fpos + 1:]
    else:
        ty = rest
    # drop a trailing where clause
    for q, e in enumerate(ty):
        if is_tok(e, 'where'):
            ty = ty[:q]
            break
    it.impl_type_text = src[estart(ty[0]):eend(ty[-1])]
    names = [e.text for e in ty if is_tok(e, kind='ident')]
    it.impl_type = names[0] if names else it.impl_type_text
    it.name = it.impl_type


# ----------------------------------------------------------------- bodies

class Block:
    def __init__(self, group, kind, parent_stmt):
        self.group = group          # brace Group
        self.kind = kind            # 'block' | 'match'
        self.parent = parent_stmt   # Stmt or None
        self.stmts = []


class Stmt:
    def __init__(self, elems, block, kind):
        self.elems = elems
        self.block = block          # enclosing Block
        self.kind = kind            # 'stmt' | 'arm' | 'tail'
        self.blocks = []            # nested Blocks (direct)
        self.has_semi = False

    @property
    def start(self):
        return estart(self.elems[0])

    @property
    def end(self):
        return eend(self.elems[-1])


class Loop:
    def __init__(self, kw_tok, body_group, head_elems, stmt):
        self.kw, self.body, self.head, self.stmt = kw_tok, body_group, head_elems, stmt


class Closure:
    def __init__(self, bar1, bar2, params, body_elems, stmt):
        self.bar1, self.bar2, self.params, self.body, self.stmt = bar1, bar2, params, body_elems, stmt


class Body:
    """Structural view of a function body."""

    def __init__(self, group):
        self.group = group
        self.loops = []
        self.closures = []
        self.root = self._block(group, 'block', None)

    # -- statement splitting
    def _block(self, group, kind, parent):
        b = Block(group, kind, parent)
        if kind == 'match':
            self._arms(b)
            return b
        el = group.children
        i, n = 0, len(el)
        while i < n:
            j = self._stmt_end(el, i)
            elems = el[i:j]
            st = Stmt(elems, b, 'stmt')
            st.has_semi = is_tok(elems[-1], ';')
            if j >= n and not st.has_semi:
                st.kind = 'tail'
            b.stmts.append(st)
            self._scan(elems, st)
            i = j
        return b

    def _stmt_end(self, el, i):
        n = len(el)
        first = el[i]
        if is_tok(first, ';'):
            return i + 1
        blocklike = (is_tok(first) and first.text in ("if", "match", "while", "for", "loop", "unsafe")) or is_group(first, '{')
        # labelled loops:  'a: loop { }
        if is_tok(first, kind='lifetime') and i + 2 < n and is_tok(el[i + 1], ':'):
            blocklike = True
        if blocklike and not is_tok(first, 'let'):
            j = self._construct_end(el, i)
            # `match x {..}.foo()` / `if .. {..} else {..} as u8;` are not used in statement position in the code we read
            if j < n and (is_tok(el[j], '.') or is_tok(el[j], '?')):
                pass  # falls through to the `;` scan below
            else:
                if j < n and is_tok(el[j], ';'):
                    return j + 1
                return j
        j = i
        while j < n and not is_tok(el[j], ';'):
            j += 1
        return min(j + 1, n)

    def _construct_end(self, el, i):
        """el[i] starts a block-like expression; return index just after it."""
        n = len(el)
        if is_tok(el[i], kind='lifetime'):
            i += 2
        first = el[i]
        if is_group(first, '{'):
            return i + 1
        kw = first.text
        if kw in ("loop", "unsafe"):
            return i + 2
        j = i + 1
        if kw == "for":
            while j < n and not is_tok(el[j], 'in'):
                j += 1
        if kw in ("if", "while") and j < n and is_tok(el[j], 'let'):
            while j < n and not is_tok(el[j], '='):
                j += 1
        while j < n and not is_group(el[j], '{'):
            j += 1
        if j >= n:
            raise Unsupported("block-like expression without a block at %d" % first.start)
        j += 1
        if kw == "if":
            while j < n and is_tok(el[j], 'else'):
                if j + 1 < n and is_tok(el[j + 1], 'if'):
                    j += 2
                    if j < n and is_tok(el[j], 'let'):
                        while j < n and not is_tok(el[j], '='):
                            j += 1
                    while j < n and not is_group(el[j], '{'):
                        j += 1
                    j += 1
                else:
                    j += 2
        return j

    def _arms(self, b):
        el = b.group.children
        i, n = 0, len(el)
        while i < n:
            # pattern up to `=>`
            j = i
            while j < n and not is_tok(el[j], '=>'):
                j += 1
            if j >= n:
                raise Unsupported("match arm without => at %d" % estart(el[i]))
            k = j + 1
            if k < n and is_group(el[k], '{') and (k + 1 >= n or is_tok(el[k + 1], ',') or not (is_tok(el[k + 1], '.') or is_tok(el[k + 1], '?'))):
                end = k + 1
                if end < n and is_tok(el[end], ','):
                    end += 1
            else:
                end = k
                while end < n and not is_tok(el[end], ','):
                    end += 1
                end = min(end + 1, n)
            st = Stmt(el[i:end], b, 'arm')
            b.stmts.append(st)
            self._scan(el[k:end], st)
            i = end
        return b

    # -- find nested blocks, loops, closures inside a sequence of elements
    def _scan(self, elems, st):
        expect = None      # 'block' | 'match' after if/while/for/match keyword
        loop_kw = None
        head_start = None
        prev = None
        i, n = 0, len(elems)
        while i < n:
            e = elems[i]
            if isinstance(e, Tok):
                if e.kind == 'ident' and e.text in ("if", "while", "for", "match"):
                    # `for` inside a type (for<'a>) does not occur in bodies we read
                    expect = 'match' if e.text == "match" else 'block'
                    if e.text in ("while", "for"):
                        loop_kw, head_start = e, i + 1
                    if e.text == "for":
                        # the pattern may contain braces; the block is the first brace group after `in`
                        while i + 1 < n and not is_tok(elems[i + 1], 'in'):
                            i += 1
                    if e.text in ("if", "while") and i + 1 < n and is_tok(elems[i + 1], 'let'):
                        # `if let PAT = EXPR {`: the pattern may contain brace groups and `|`; the block is the first brace group after `=`
                        while i + 1 < n and not is_tok(elems[i + 1], '='):
                            i += 1
                elif e.kind == 'ident' and e.text in ("loop",):
                    expect = 'block'
                    loop_kw, head_start = e, i + 1
                elif e.kind == 'ident' and e.text in ("else", "unsafe"):
                    if not (i + 1 < n and is_tok(elems[i + 1], 'if')):
                        expect = 'block'
                elif e.text in ("|", "||") and self._closure_pos(prev):
                    i = self._closure(elems, i, st)
                    prev = elems[i - 1]
                    continue
                prev = e
                i += 1
                continue
            # group
            if e.delim == '{':
                if expect == 'match':
                    st.blocks.append(self._block(e, 'match', st))
                elif expect == 'block':
                    blk = self._block(e, 'block', st)
                    st.blocks.append(blk)
                    if loop_kw is not None:
                        self.loops.append(Loop(loop_kw, e, elems[head_start:i], st))
                        loop_kw = None
                elif prev is None or (isinstance(prev, Tok) and (prev.text in ("=>", "=", ";", ",", "(", "&&", "||", "!", "return", "break", "in") or prev.kind == 'lifetime')) or isinstance(prev, Group) and prev.delim == '{':
                    st.blocks.append(self._block(e, 'block', st))
                else:
                    # struct literal / struct pattern: scan the field expressions
                    self._scan(e.children, st)
                expect = None
            else:
                self._scan(e.children, st)
            prev = e
            i += 1

    @staticmethod
    def _closure_pos(prev):
        if prev is None:
            return True
        if isinstance(prev, Group):
            return False
        return prev.text in ("(", ",", "=", "move", "return", "=>", ";", "{", "&&", "||") or prev.kind == 'open'

    def _closure(self, elems, i, st):
        n = len(elems)
        bar1 = elems[i]
        if bar1.text == "||":
            params, bar2, j = [], bar1, i + 1
        else:
            j = i + 1
            while j < n and not is_tok(elems[j], '|'):
                j += 1
            if j >= n:
                raise Unsupported("unterminated closure parameter list at %d" % bar1.start)
            params, bar2 = elems[i + 1:j], elems[j]
            j += 1
        # optional `-> T`
        if j < n and is_tok(elems[j], '->'):
            while j < n and not is_group(elems[j], '{'):
                j += 1
        if j < n and is_group(elems[j], '{'):
            body = [elems[j]]
            end = j + 1
            st.blocks.append(self._block(elems[j], 'block', st))
        else:
            end = j
            while end < n and not is_tok(elems[end], ','):
                end += 1
            body = elems[j:end]
            self._scan(body, st)
        self.closures.append(Closure(bar1, bar2, params, body, st))
        return end

    # -- queries
    def all_stmts(self):
        out = []

        def rec(b):
            for s in b.stmts:
                out.append(s)
                for c in s.blocks:
                    rec(c)
        rec(self.root)
        return out

    def innermost_stmt(self, offset, insertable=True):
        """Innermost statement whose text range contains offset; arms are skipped when insertable."""
        best = None

        def rec(b):
            nonlocal best
            for s in b.stmts:
                if s.start <= offset < s.end:
                    if s.kind != 'arm' or not insertable:
                        best = s
                    for c in s.blocks:
                        rec(c)
        rec(self.root)
        return best

    def innermost_block(self, offset):
        best = self.root

        def rec(b):
            nonlocal best
            for s in b.stmts:
                for c in s.blocks:
                    if c.group.start < offset < c.group.end:
                        if c.kind == 'block':
                            best = c
                        rec(c)
        rec(self.root)
        return best


def flat_tokens(elems):
    out = []
    for e in elems:
        if isinstance(e, Tok):
            out.append(e)
        else:
            out.append(e.open)
            out.extend(flat_tokens(e.children))
            out.append(e.close)
    return out


def find_pattern(body_group, pattern_src):
    """All occurrences (start offsets) of a token sequence inside a body."""
    pat = [t.text for t in lex(pattern_src)]
    toks = flat_tokens(body_group.children)
    hits = []
    for i in range(len(toks) - len(pat) + 1):
        if all(toks[i + k].text == pat[k] for k in range(len(pat))):
            hits.append((toks[i].start, toks[i + len(pat) - 1].end))
    return hits


class SourceFile:
    def __init__(self, path, text=None):
        self.path = path
        self.raw = open(path).read() if text is None else text
        self.src = blank_comments(self.raw)
        self.toks = lex(self.src)
        self.root = tree(self.toks)
        self.items = parse_items(self.root, self.src)
        self._line_starts = [0]
        for m in re.finditer('\n', self.src):
            self._line_starts.append(m.end())

    def line_of(self, offset):
        import bisect
        return bisect.bisect_right(self._line_starts, offset)

    def functions(self):
        """Yield (qualified name, Item) for every fn, including impl members."""
        out = []

        def rec(items, prefix, in_test):
            for it in items:
                test = in_test or any('cfg(test)' in a[2].replace(' ', '') for a in it.attrs)
                if it.kind == 'fn':
                    out.append((prefix + it.name, it, test))
                elif it.kind == 'impl':
                    rec(it.items, it.impl_type + "::", test)
                elif it.kind in ('mod', 'trait') and it.items is not None:
                    rec(it.items, prefix + it.name + "::", test)
        rec(self.items, "", False)
        return out
