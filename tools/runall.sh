#!/bin/bash
# Runs every claimed check on the unchanged tree, validates MANIFEST and evidence. Use before committing evidence.
cd /verif
git -C /repo diff --quiet || { echo "/repo has uncommitted changes"; exit 3; }
python3-vt tools/mkmanifest.py | tail -1
rc=0
for p in $(python3 -c "import json;print(' '.join(c['property_id'] for c in json.load(open('MANIFEST.json'))['checks']))"); do
  out=$(VERIF_SEED=${VERIF_SEED:-0} ./check $p --tier ${TIER:-quick} 2>/dev/null); r=$?
  echo "$out" | grep -E "^(OK|VIOLATION|UNDECIDED|KNOWN-FINDING)" | cut -c1-200
  [ $r -ne 0 ] && { echo "  !! $p exit $r"; rc=1; }
done
python3-vt - <<'PY'
import json,jsonschema,glob
s=json.load(open('/root/.vp/EVIDENCE.schema.json'))
m=json.load(open('/verif/MANIFEST.json'))
for c in m['checks']:
    e=json.load(open('/verif/'+c['evidence_file'])); jsonschema.validate(e,s)
    cov=e['coverage']
    assert e['level']==c['level_claimed']['category'], (c['property_id'], e['level'])
    if e['level']=='proof': assert cov['obligations']==cov['discharged']>0, (c['property_id'],cov['obligations'],cov['discharged'])
print('evidence valid for', len(m['checks']), 'checks')
PY
exit $rc
