#!/usr/bin/env python3
"""mkseedprompts.py <outdir> <Cxx> [<Cxx> ...]  (development tool)
Prepares one scratch worktree of /repo and one prompt file per property for an independent sub-agent that is to write a seeded change: the prompt carries ONLY the text of the
property (from properties.jsonl), a style hint and one-line descriptions of the changes that already exist for it - nothing else from /verif.  Launch each with
`Agent(prompt="Read the file <outdir>/<Cxx>/prompt.txt and carry out exactly the task it describes ...")`, then `tools/ingest_seed.sh <outdir>/<Cxx>/out <Cxx>_<V> <round>`
and `python3 tools/seedsweep.py <names>`; remove the worktrees afterwards (`git -C /repo worktree remove --force <outdir>/<Cxx>/wt`)."""
import glob, json, os, subprocess, sys
ROOT = os.path.dirname(os.path.dirname(os.path.abspath(__file__)))
STYLES = [
    "Prefer a defect in code that the property DEPENDS ON but that lies outside the files it is anchored in: a helper, getter or data structure in another file or crate that the anchored code calls into.",
    "Prefer a defect that only manifests for an UNUSUAL BUT VALID configuration or input (tick size, number of levels / assets, step size, start time, very large in-range prices / volumes / timestamps, trading initially disabled, one-sided book), small and local.",
    "Prefer a change that RESTRUCTURES code (fast path, cache / dirty flag, shared helper, reordered statements, a loop rewritten with iterator adapters or the other way round) and is wrong only on one path.",
    "Prefer a defect made of TWO COOPERATING SITES that each look fine alone, manifesting only after a specific multi-step sequence.",
    "Prefer a defect in a rarely exercised BRANCH (error path, empty-collection path, the second of two mirrored bid/ask or single-/multi-asset copies, an early-return path), small and local.",
]


def main():
    out, ids = sys.argv[1], sys.argv[2:]
    props = {json.loads(l)['id']: json.loads(l) for l in open(os.path.join(ROOT, 'properties.jsonl'))}
    earlier = {}
    for d in sorted(glob.glob(os.path.join(ROOT, 'seeded', 'C*_*'))):
        m = json.load(open(os.path.join(d, 'meta.json')))
        summ = m.get('summary') or open(os.path.join(d, 'notes.md')).readline().strip().lstrip('# ')
        earlier.setdefault(m['property'], []).append(summ.split(' - ', 1)[-1][:160])
    for i, pid in enumerate(ids):
        p = props[pid]
        base = os.path.join(out, pid)
        os.makedirs(os.path.join(base, 'out'), exist_ok=True)
        subprocess.run(['git', '-C', '/repo', 'worktree', 'add', '-q', '--detach', os.path.join(base, 'wt'), 'HEAD'], check=True)
        py = pid in ('C18', 'C19')
        demo = ("a Python script `demo.py` that takes the path of the built extension module (`$CARGO_TARGET_DIR/debug/libbourse.so`, built with `cargo build -p bourse --offline`) as argv[1], loads it with importlib (copy it to a temp dir as `core.so`, module name `core`; run it with /opt/veriftools/pyvenv/bin/python, which has numpy) and exits non-zero with a message when the property is violated" if py else
                "a Rust integration test file `demo.rs` (it will be copied to `<crate>/tests/seed_demo.rs` of the crate named in `crate.txt`; it may only use that crate's public API and existing dependencies / dev-dependencies) with #[test] functions that FAIL with your change and PASS without it")
        txt = f"""You are helping to evaluate a verification framework for the Rust project zombie-einstein/bourse (a limit-order-book matching engine with a discrete-event market simulator and PyO3 bindings). Write ONE realistic, subtle defect ("seeded change") that breaks a given semantic property of the project while still compiling and passing the project's existing test suite.

Work ONLY inside your own scratch git worktree of the repository: {base}/wt  (never touch /repo or /verif; do not read anything under /verif). Everything is offline: use `cargo ... --offline` and `export CARGO_TARGET_DIR={base}/target`. Do not use `git stash`: to test without your change, save `git diff > {base}/my.diff`, run `git checkout -- .`, test, and re-apply with `git apply {base}/my.diff`.

THE PROPERTY ({pid}): {p['title']}
Statement: {p['statement']}
Scope: {p['quantifier']['text']}
Why the existing tests cannot settle it: {p['why_tests_cant']}
Code the property is anchored in: {', '.join(p['anchors']['files'])}

STYLE: {STYLES[i % len(STYLES)]}

WHAT TO PRODUCE, in {base}/out/ :
1. `patch.diff` - the output of `git diff`: a change to NON-TEST source (no edits to tests, doc-tests, benches, examples, public signatures, Cargo.toml, the cargo feature `bourse_verif` or the `verif_transactions` accessors) that makes the property false for some inputs/histories WITHIN THE SCOPE STATED ABOVE (order and modify volumes >= 1, limit prices strictly between 0 and 2^32-1 on the tick grid, clock not moved backwards, batches not larger than the step size), yet the workspace compiles and `cargo test --workspace --no-fail-fast --offline` passes completely (39 unit tests plus doc-tests); it needs something specific to manifest.
2. the demonstration: {demo}. It must pass on the unmodified repository and fail with your change.
3. `crate.txt` (Rust demos only): the crate directory the demo belongs to, e.g. `crates/order_book` or `crates/step_sim`.
4. `notes.md`: first line `# {pid} variant X - <one-line description of the change>`; then what it is, why the tests miss it, what it needs to manifest, the commands you ran.

Existing changes of this property - do NOT repeat these ideas:
""" + '\n'.join('- ' + e for e in earlier.get(pid, [])) + f"""

Verify yourself: (a) full suite passes with the change, (b) demo fails with it, (c) demo passes without it; `git apply --check patch.diff` succeeds on a clean export of HEAD (`git archive HEAD | tar -x -C <tmpdir>`). Leave the worktree with the change applied and without the demo file; delete {base}/target. Report the one-line description and the verification results.
"""
        open(os.path.join(base, 'prompt.txt'), 'w').write(txt)
    print('prompts written for', ' '.join(ids), 'under', out)


main()
