use vstd::prelude::*;
verus! {
pub type Vol = u32; pub type Price = u32; pub type OrderCount = u32; pub type Nanos = u64; pub type OrderId = usize; pub type TraderId = u32;
#[derive(Clone, Copy)] pub enum Side { Bid, Ask }
pub enum OrderError { PriceError { price: Price, tick_size: Price } }
// ---- stand-ins: pyo3 ----
#[verifier::external_body] pub struct PyErr { _p: u8 }
pub type PyResult<T> = Result<T, PyErr>;
pub struct PyValueError;
impl PyValueError { #[verifier::external_body] pub fn new_err(msg: String) -> PyErr { unimplemented!() } }
impl OrderError { #[verifier::external_body] pub fn to_string(&self) -> String { unimplemented!() } }
// ---- core, bodiless with contracts ----
pub ghost struct BookView { pub rest: int }
#[verifier::external_body] pub struct BaseOrderBook { _p: u8 }
impl BaseOrderBook {
    pub uninterp spec fn view(&self) -> BookView;
    pub uninterp spec fn sp_bid_best_vol(&self) -> Vol;
    pub uninterp spec fn sp_ask_best_vol(&self) -> Vol;
    pub uninterp spec fn sp_cap(v: BookView, side: Side, vol: Vol, tr: TraderId, p: Option<Price>) -> (BookView, Result<OrderId, OrderError>);
    #[verifier::external_body] fn bid_best_vol(&self) -> (r: Vol) ensures r == self.sp_bid_best_vol() { unimplemented!() }
    #[verifier::external_body] fn ask_best_vol(&self) -> (r: Vol) ensures r == self.sp_ask_best_vol() { unimplemented!() }
    #[verifier::external_body] fn create_and_place_order(&mut self, side: Side, vol: Vol, trader_id: TraderId, price: Option<Price>) -> (r: Result<OrderId, OrderError>)
        ensures (final(self).view(), r) == Self::sp_cap(old(self).view(), side, vol, trader_id, price) { unimplemented!() }
}
pub struct OrderBook(BaseOrderBook);
impl OrderBook {
    fn best_bid_vol(&self) -> (r: Vol) ensures r == self.0.sp_bid_best_vol() {
        self.0.bid_best_vol()
    }
    fn place_order(&mut self, bid: bool, vol: Vol, trader_id: TraderId, price: Option<Price>) -> (r: PyResult<OrderId>)
        ensures ({
            let (v2, rr) = BaseOrderBook::sp_cap(old(self).0.view(), if bid { Side::Bid } else { Side::Ask }, vol, trader_id, price);
            final(self).0.view() == v2 && (r is Ok <==> rr is Ok) && (r is Ok ==> r->Ok_0 == rr->Ok_0)
        })
    {
        let side = match bid {
            true => Side::Bid,
            false => Side::Ask,
        };
        let order_id = self.0.create_and_place_order(side, vol, trader_id, price);

        match order_id {
            Ok(i) => Ok(i),
            Err(e) => Err(PyValueError::new_err(e.to_string())),
        }
    }
}
}
fn main(){}
