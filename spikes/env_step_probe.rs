use vstd::prelude::*;
use std::mem;
verus! {
pub type Vol = u32; pub type Price = u32; pub type Nanos = u64; pub type OrderId = usize;
pub enum Event<ID> { New { order_id: ID }, Cancellation { order_id: ID }, Modify { order_id: ID, new_price: Option<Price>, new_vol: Option<Vol> } }

pub assume_specification<T: Default> [core::mem::take::<T>] (x: &mut T) -> (r: T)
    ensures r == *old(x), *final(x) == default_of::<T>(),
;
pub uninterp spec fn default_of<T>() -> T;
pub broadcast axiom fn axiom_default_vec<T>()
    ensures (#[trigger] default_of::<Vec<T>>())@ == Seq::<T>::empty();
pub trait RngCore { }
pub trait SliceRandom { fn shuffle<R: RngCore>(&mut self, rng: &mut R); }
impl<T> SliceRandom for Vec<T> {
    #[verifier::external_body]
    fn shuffle<R: RngCore>(&mut self, rng: &mut R)
        ensures final(self)@.to_multiset() == old(self)@.to_multiset()
    { unimplemented!() }
}

// ---------- book: bodiless, contracts only (generated from the book unit's contract text) ----------
pub ghost struct BookView { pub t: int, pub trade_vol: int, pub rest: int }   // `rest` stands for orders/trades/flags
#[verifier::external_body] pub struct OrderBook { _p: u8 }
pub uninterp spec fn ref_event(v: BookView, e: Event<OrderId>) -> BookView;
pub uninterp spec fn ev_ok(v: BookView, e: Event<OrderId>) -> bool;
impl OrderBook {
    pub uninterp spec fn view(&self) -> BookView;
    #[verifier::external_body] fn get_time(&self) -> (r: Nanos) ensures r == self.view().t { unimplemented!() }
    #[verifier::external_body] fn set_time(&mut self, t: Nanos) ensures final(self).view() == (BookView { t: t as int, ..old(self).view() }) { unimplemented!() }
    #[verifier::external_body] fn reset_trade_vol(&mut self) ensures final(self).view() == (BookView { trade_vol: 0, ..old(self).view() }) { unimplemented!() }
    #[verifier::external_body] fn get_trade_vol(&self) -> (r: Vol) ensures r == self.view().trade_vol { unimplemented!() }
    #[verifier::external_body] fn process_event(&mut self, event: Event<OrderId>)
        requires ev_ok(old(self).view(), event)
        ensures final(self).view() == ref_event(old(self).view(), event) { unimplemented!() }
}

pub open spec fn reset(v: BookView) -> BookView { BookView { trade_vol: 0, ..v } }
pub open spec fn at(v: BookView, t: int) -> BookView { BookView { t, ..v } }
pub open spec fn run(b: BookView, q: Seq<Event<OrderId>>, s: int) -> BookView decreases q.len() {
    if q.len() == 0 { b } else { ref_event(at(run(b, q.drop_last(), s), s + q.len() - 1), q.last()) }
}
pub open spec fn batch_ok(b: BookView, q: Seq<Event<OrderId>>, s: int) -> bool decreases q.len() {
    q.len() == 0 || (batch_ok(b, q.drop_last(), s) && ev_ok(at(run(b, q.drop_last(), s), s + q.len() - 1), q.last()))
}

pub struct Env {
    step_size: Nanos,
    order_book: OrderBook,
    trade_vols: Vec<Vol>,
    transactions: Vec<Event<OrderId>>,
}

impl Env {
    fn step<R: RngCore>(&mut self, rng: &mut R)
        requires
            old(self).order_book.view().t + old(self).step_size <= u64::MAX,
            old(self).transactions@.len() <= old(self).step_size,
            forall|q: Seq<Event<OrderId>>| #[trigger] q.to_multiset() == old(self).transactions@.to_multiset()
                ==> batch_ok(reset(old(self).order_book.view()), q, old(self).order_book.view().t),
        ensures
            final(self).transactions@.len() == 0,
            exists|q: Seq<Event<OrderId>>| q.to_multiset() == old(self).transactions@.to_multiset()
                && final(self).order_book.view() == at(run(reset(old(self).order_book.view()), q, old(self).order_book.view().t), old(self).order_book.view().t + old(self).step_size),
            final(self).trade_vols@ == old(self).trade_vols@.push(final(self).order_book.view().trade_vol as u32),
            final(self).step_size == old(self).step_size,
    {
        broadcast use axiom_default_vec;
        let start_time = self.order_book.get_time();
        self.order_book.reset_trade_vol();

        let mut transactions = mem::take(&mut self.transactions);
        transactions.shuffle(rng);

        let ghost q = transactions@;
        let ghost b0 = self.order_book.view();
        proof {
            assert(b0 == reset(old(self).order_book.view()));
            assert(batch_ok(b0, q, start_time as int));
            q.to_multiset_ensures();
            assert(q.len() == transactions.len());
            old(self).transactions@.to_multiset_ensures();
        }
        let mut i: usize = 0;
        for t in it: transactions
            invariant
                i == it.index@, q == it.seq(), q.len() <= self.step_size, q.len() <= usize::MAX, start_time + self.step_size <= u64::MAX,
                batch_ok(b0, q, start_time as int),
                i > 0 ==> self.order_book.view() == run(b0, q.take(i as int), start_time as int),
                i == 0 ==> self.order_book.view() == b0,
                self.step_size == old(self).step_size, self.trade_vols == old(self).trade_vols, self.transactions@.len() == 0,
        {
            proof { assert(i < q.len()); lemma_batch_prefix(b0, q, start_time as int, i as int + 1); assert(q.take(i as int + 1).drop_last() =~= q.take(i as int)); 
                    if i == 0 { assert(q.take(0).len() == 0); } }
            self.order_book
                .set_time(start_time + Nanos::try_from(i).unwrap());
            self.order_book.process_event(t);
            i = i + 1;
        }
        proof { assert(q.take(q.len() as int) =~= q); }

        self.order_book.set_time(start_time + self.step_size);
        self.trade_vols.push(self.order_book.get_trade_vol());
    }
}
proof fn lemma_batch_prefix(b: BookView, q: Seq<Event<OrderId>>, s: int, n: int)
    requires batch_ok(b, q, s), 0 <= n <= q.len()
    ensures batch_ok(b, q.take(n), s)
    decreases q.len()
{
    if n < q.len() { lemma_batch_prefix(b, q.drop_last(), s, n); assert(q.drop_last().take(n) =~= q.take(n)); } else { assert(q.take(n) =~= q); }
}
}
fn main(){}
