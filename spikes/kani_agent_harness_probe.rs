#[cfg(kani)]
mod proofs {
    use bourse_de::agents::{Agent, NoiseAgent, NoiseAgentParams, MomentumAgent, MomentumParams};
    use bourse_de::types::{OrderId, Price, Side, Status, TraderId, Vol};
    use bourse_de::{Env, OrderError};
    use rand::RngCore;
    use rand_distr::Distribution;

    struct SymRng;
    impl RngCore for SymRng {
        fn next_u32(&mut self) -> u32 { kani::any() }
        fn next_u64(&mut self) -> u64 { kani::any() }
        fn fill_bytes(&mut self, dest: &mut [u8]) { for b in dest.iter_mut() { *b = kani::any(); } }
        fn try_fill_bytes(&mut self, dest: &mut [u8]) -> Result<(), rand::Error> { self.fill_bytes(dest); Ok(()) }
    }
    // ---- recording stubs = contracts of the callees ----
    #[derive(Clone, Copy)]
    struct Rec { bid: bool, vol: Vol, trader: TraderId, price: Option<Price> }
    static mut LOG: [Option<Rec>; 4] = [None; 4];
    static mut N: usize = 0;
    fn place_stub<const LEVELS: usize>(_e: &mut Env<LEVELS>, side: Side, vol: Vol, trader_id: TraderId, price: Option<Price>) -> Result<OrderId, OrderError> {
        unsafe { if N < 4 { LOG[N] = Some(Rec { bid: matches!(side, Side::Bid), vol, trader: trader_id, price }); } N += 1; Ok(N - 1) }
    }
    static mut MID: f64 = 0.0;
    fn mid_stub<const LEVELS: usize>(_b: &bourse_book::OrderBook<LEVELS>) -> f64 { unsafe { MID } }
    fn buy_stub<R: RngCore, D: Distribution<f64>>(env: &mut Env, _rng: &mut R, _d: D, _mid: f64, _tick: f64, vol: Vol, trader: TraderId) -> Result<OrderId, OrderError> {
        env.place_order(Side::Bid, vol, trader, Some(0))
    }
    fn sell_stub<R: RngCore, D: Distribution<f64>>(env: &mut Env, _rng: &mut R, _d: D, _mid: f64, _tick: f64, vol: Vol, trader: TraderId) -> Result<OrderId, OrderError> {
        env.place_order(Side::Ask, vol, trader, Some(0))
    }
    fn cancel_stub<R: RngCore>(_env: &mut Env, _rng: &mut R, _orders: &[OrderId], _p: f32) -> Vec<OrderId> { Vec::new() }
    fn tanh_model(x: f64) -> f64 {
        let y: f64 = kani::any();
        kani::assume(y >= -1.0 && y <= 1.0);
        kani::assume((x > 0.0) == (y > 0.0));
        kani::assume((x < 0.0) == (y < 0.0));
        kani::assume(!(x >= 3.0) || y >= 0.99);
        kani::assume(!(x <= -3.0) || y <= -0.99);
        y
    }

    #[kani::proof]
    #[kani::unwind(12)]
    #[kani::stub(bourse_de::Env::place_order, place_stub)]
    #[kani::stub(bourse_book::OrderBook::mid_price, mid_stub)]
    #[kani::stub(bourse_de::agents::common::place_buy_limit_order, buy_stub)]
    #[kani::stub(bourse_de::agents::common::place_sell_limit_order, sell_stub)]
    fn noise_update_rules() {
        let mut env: Env = Env::new(0, 1, 1000, true);
        let mut rng = SymRng;
        let pl: f32 = kani::any(); let pm: f32 = kani::any();
        kani::assume(pl == 0.0 || pl >= 1.0);
        kani::assume(pm == 0.0 || pm >= 1.0);
        let params = NoiseAgentParams { tick_size: 1, p_limit: pl, p_market: pm, p_cancel: 0.0, trade_vol: 10, price_dist_mu: 0.0, price_dist_sigma: 1.0 };
        let mut a = NoiseAgent::new(5, 1, params);
        unsafe { MID = 100.0; }
        a.update(&mut env, &mut rng);
        unsafe {
            let want = (if pl >= 1.0 { 1 } else { 0 }) + (if pm >= 1.0 { 1 } else { 0 });
            assert!(N == want);
            if N >= 1 { let r = LOG[0].unwrap(); assert!(r.vol == 10 && r.trader == 5); }
            if N == 2 { let r = LOG[1].unwrap(); assert!(r.vol == 10 && r.trader == 5 && r.price.is_none()); }
        }
    }

    #[kani::proof]
    #[kani::unwind(12)]
    #[kani::stub(f64::tanh, tanh_model)]
    #[kani::stub(bourse_de::Env::place_order, place_stub)]
    #[kani::stub(bourse_book::OrderBook::mid_price, mid_stub)]
    #[kani::stub(bourse_de::agents::common::place_buy_limit_order, buy_stub)]
    #[kani::stub(bourse_de::agents::common::place_sell_limit_order, sell_stub)]
    #[kani::stub(bourse_de::agents::common::cancel_live_orders, cancel_stub)]
    fn momentum_sells() {
        let mut env: Env = Env::new(0, 1, 1000, true);
        let mut rng = SymRng;
        let params = MomentumParams { tick_size: 1, p_cancel: 0.0, trade_vol: 10, decay: 1.0, demand: 5.0, scale: 0.5, order_ratio: 0.0, price_dist_mu: 0.0, price_dist_sigma: 1.0 };
        let mut a = MomentumAgent::new(5, 1, params);
        unsafe { MID = 100.0; }
        a.update(&mut env, &mut rng);
        unsafe { assert!(N == 0); MID = 90.0; }
        a.update(&mut env, &mut rng);
        unsafe {
            assert!(N == 1);
            if N == 1 { let r = LOG[0].unwrap(); assert!(!r.bid && r.vol == 10 && r.trader == 5 && r.price.is_none()); }
        }
    }
}
