use vstd::prelude::*;
verus! {
pub type Vol = u32; pub type Price = u32; pub type OrderCount = u32; pub type Nanos = u64; pub type OrderId = usize; pub type TraderId = u32;
pub struct Level2Data<const N: usize> {
    pub bid_price: Price, pub ask_price: Price, pub bid_vol: Vol, pub ask_vol: Vol,
    pub bid_price_levels: [(Vol, OrderCount); N], pub ask_price_levels: [(Vol, OrderCount); N],
}
// ---- stand-ins for the core (bodiless, contracts from the env/book units) ----
#[verifier::external_body] pub struct BaseOrderBook { _p: u8 }
#[verifier::external_body] pub struct BaseEnv { _p: u8 }
impl BaseOrderBook {
    pub uninterp spec fn trade_vol(&self) -> Vol;
    #[verifier::external_body] pub fn get_trade_vol(&self) -> (r: Vol) ensures r == self.trade_vol() { unimplemented!() }
}
impl BaseEnv {
    pub uninterp spec fn l2(&self) -> Level2Data<10>;
    pub uninterp spec fn book(&self) -> BaseOrderBook;
    #[verifier::external_body] pub fn level_2_data(&self) -> (r: &Level2Data<10>) ensures *r == self.l2() { unimplemented!() }
    #[verifier::external_body] pub fn get_orderbook(&self) -> (r: &BaseOrderBook) ensures *r == self.book() { unimplemented!() }
}
// ---- stand-ins for pyo3 / numpy ----
#[verifier::external_body] pub struct Python<'a> { _p: &'a u8 }
impl<'a> Clone for Python<'a> { #[verifier::external_body] fn clone(&self) -> Self { unimplemented!() } }
impl<'a> Copy for Python<'a> {}
#[verifier::external_body] #[verifier::reject_recursive_types(T)] pub struct PyArray1<T> { _p: core::marker::PhantomData<T> }
impl<T> PyArray1<T> { pub uninterp spec fn view(&self) -> Seq<T>; }
pub trait ToPyArray<T> { fn to_pyarray<'a>(&self, py: Python<'a>) -> &'a PyArray1<T>; }
impl<T, const N: usize> ToPyArray<T> for [T; N] {
    #[verifier::external_body] fn to_pyarray<'a>(&self, py: Python<'a>) -> (r: &'a PyArray1<T>) ensures r.view() == self@ { unimplemented!() }
}
impl<T> ToPyArray<T> for Vec<T> {
    #[verifier::external_body] fn to_pyarray<'a>(&self, py: Python<'a>) -> (r: &'a PyArray1<T>) ensures r.view() == self@ { unimplemented!() }
}

pub struct StepEnv { env: BaseEnv }

spec fn doc_l1(tv: Vol, d: Level2Data<10>) -> Seq<u32> {
    seq![tv, d.bid_price, d.ask_price, d.bid_vol, d.ask_vol, d.bid_price_levels[0].0, d.bid_price_levels[0].1, d.ask_price_levels[0].0, d.ask_price_levels[0].1]
}

impl StepEnv {
    fn level_1_data_array<'a>(&self, py: Python<'a>) -> (r: &'a PyArray1<u32>)
        ensures r.view() == doc_l1(self.env.book().trade_vol(), self.env.l2())
    {
        let data = self.env.level_2_data();
        let data_vec = [
            self.env.get_orderbook().get_trade_vol(),
            data.bid_price,
            data.ask_price,
            data.bid_vol,
            data.ask_vol,
            data.bid_price_levels[0].0,
            data.bid_price_levels[0].1,
            data.ask_price_levels[0].0,
            data.ask_price_levels[0].1,
        ];

        data_vec.to_pyarray(py)
    }
    fn level_2_data_array<'a>(&self, py: Python<'a>) -> (r: &'a PyArray1<u32>)
        ensures r.view().len() == 45, r.view()[3] == self.env.l2().bid_vol, r.view()[4] == self.env.l2().ask_vol,
            forall|k: int| 0 <= k < 10 ==> r.view()[5 + 4*k] == self.env.l2().bid_price_levels[k].0 && r.view()[6 + 4*k] == self.env.l2().bid_price_levels[k].1
                && r.view()[7 + 4*k] == self.env.l2().ask_price_levels[k].0 && r.view()[8 + 4*k] == self.env.l2().ask_price_levels[k].1,
    {
        let data = self.env.level_2_data();
        let mut data_vec = vec![
            self.env.get_orderbook().get_trade_vol(),
            data.bid_price,
            data.ask_price,
            data.ask_vol,
            data.bid_vol,
        ];

        for i in 0..10
            invariant data_vec@.len() == 5 + 4*i, data_vec@[3] == data.ask_vol, data_vec@[4] == data.bid_vol, *data == self.env.l2(),
              forall|k: int| 0 <= k < i ==> data_vec@[5 + 4*k] == data.bid_price_levels[k].0 && data_vec@[6 + 4*k] == data.bid_price_levels[k].1
                && data_vec@[7 + 4*k] == data.ask_price_levels[k].0 && data_vec@[8 + 4*k] == data.ask_price_levels[k].1,
        {
            data_vec.push(data.bid_price_levels[i].0);
            data_vec.push(data.bid_price_levels[i].1);
            data_vec.push(data.ask_price_levels[i].0);
            data_vec.push(data.ask_price_levels[i].1);
        }

        data_vec.to_pyarray(py)
    }
}
}
fn main(){}
