#![feature(allocator_api)]
use vstd::prelude::*;
use std::collections::BTreeMap;
use std::cmp::min;
use std::fmt;
use std::path::Path;
verus! {

pub uninterp spec fn key_le<K>(a: K, b: K) -> bool;

pub axiom fn axiom_key_le_u32(a: u32, b: u32)
    ensures #[trigger] key_le(a, b) == (a <= b);

pub axiom fn axiom_key_le_pair(a: (u32, u64), b: (u32, u64))
    ensures #[trigger] key_le(a, b) == (a.0 < b.0 || (a.0 == b.0 && a.1 <= b.1));

pub assume_specification<K: Ord, V, A: std::alloc::Allocator + Clone> [BTreeMap::<K, V, A>::first_key_value] (m: &BTreeMap<K, V, A>) -> (r: Option<(&K, &V)>)
    ensures
        m@.dom().len() == 0 ==> r is None,
        r is None ==> m@.dom().len() == 0,
        r matches Some(kv) ==> m@.contains_key(*kv.0) && m@[*kv.0] == *kv.1
            && forall|k: K| m@.contains_key(k) ==> #[trigger] key_le(*kv.0, k),
;

pub assume_specification<T: Ord> [core::cmp::min] (a: T, b: T) -> (r: T)
    ensures (key_le(a, b) ==> r == a) && (!key_le(a, b) ==> r == b),
;

pub assume_specification<T, const N: usize, F: FnMut(usize) -> T> [core::array::from_fn] (f: F) -> (r: [T; N])
    requires forall|i: usize| i < N ==> call_requires(f, (i,)),
    ensures forall|i: usize| i < N ==> call_ensures(f, (i,), #[trigger] r@[i as int]),
;
pub type OrderId = usize;
pub type OrderKey = (Side, u32, u64);
pub type Nanos = u64;
pub type Price = u32;
pub type Vol = u32;
pub type TraderId = u32;
pub type OrderCount = u32;
pub type AssetIdx = usize;
pub type MarketOrderId = (AssetIdx, OrderId);
#[derive(Clone, Copy, Debug)]
pub enum Side {
    Bid,
    Ask,
}

impl From<bool> for Side {
    fn from(side: bool) -> Side {
        match side {
            true => Self::Bid,
            false => Self::Ask,
        }
    }
}

impl From<Side> for bool {
    fn from(side: Side) -> bool {
        match side {
            Side::Bid => true,
            Side::Ask => false,
        }
    }
}
#[derive(Clone, PartialEq, Eq, Copy, Debug)]
pub enum Status {
    New,
    Active,
    Filled,
    Cancelled,
    Rejected,
}

impl From<Status> for u8 {
    fn from(status: Status) -> u8 {
        match status {
            Status::New => 0,
            Status::Active => 1,
            Status::Filled => 2,
            Status::Cancelled => 3,
            Status::Rejected => 4,
        }
    }
}
#[derive(Clone, Copy)]
pub struct Order {
    pub side: Side,
    pub status: Status,
    pub arr_time: Nanos,
    pub end_time: Nanos,
    pub vol: Vol,
    pub start_vol: Vol,
    pub price: Price,
    pub trader_id: TraderId,
    pub order_id: OrderId,
}

pub struct Trade {
    pub t: Nanos,
    pub side: Side,
    pub price: Price,
    pub vol: Vol,
    pub active_order_id: OrderId,
    pub passive_order_id: OrderId,
}

impl Order {
    pub fn buy_limit(
        t: Nanos,
        vol: Vol,
        price: Price,
        trader_id: TraderId,
        order_id: OrderId,
    ) -> Order {
        Order {
            side: Side::Bid,
            status: Status::New,
            arr_time: t,
            end_time: Nanos::MAX,
            vol,
            start_vol: vol,
            price,
            trader_id,
            order_id,
        }
    }
    pub fn buy_market(t: Nanos, vol: Vol, trader_id: TraderId, order_id: OrderId) -> Order {
        Order {
            side: Side::Bid,
            status: Status::New,
            arr_time: t,
            end_time: Nanos::MAX,
            vol,
            start_vol: vol,
            price: Price::MAX,
            trader_id,
            order_id,
        }
    }
    pub fn sell_limit(
        t: Nanos,
        vol: Vol,
        price: Price,
        trader_id: TraderId,
        order_id: OrderId,
    ) -> Order {
        Order {
            side: Side::Ask,
            status: Status::New,
            arr_time: t,
            end_time: Nanos::MAX,
            vol,
            start_vol: vol,
            price,
            trader_id,
            order_id,
        }
    }
    pub fn sell_market(t: Nanos, vol: Vol, trader_id: TraderId, order_id: OrderId) -> Order {
        Order {
            side: Side::Ask,
            status: Status::New,
            arr_time: t,
            end_time: Nanos::MAX,
            vol,
            start_vol: vol,
            price: 0,
            trader_id,
            order_id,
        }
    }
}
pub enum Event<ID> {
    New {
        order_id: ID,
    },
    Cancellation {
        order_id: ID,
    },
    Modify {
        // Id of the order to modify
        order_id: ID,
        new_price: Option<Price>,
        new_vol: Option<Vol>,
    },
}
pub struct Level1Data {
    pub bid_price: Price,
    pub ask_price: Price,
    pub bid_vol: Vol,
    pub ask_vol: Vol,
    pub bid_touch_vol: Vol,
    pub ask_touch_vol: Vol,
    pub bid_touch_orders: OrderCount,
    pub ask_touch_orders: OrderCount,
}
pub struct Level2Data<const N: usize> {
    pub bid_price: Price,
    pub ask_price: Price,
    pub bid_vol: Vol,
    pub ask_vol: Vol,
    pub bid_price_levels: [(Vol, OrderCount); N],
    pub ask_price_levels: [(Vol, OrderCount); N],
}

#[derive(Default)]
pub struct OrderBookSide {
    vol: Vol,
    volumes: BTreeMap<Price, (Vol, OrderCount)>,
    orders: BTreeMap<(Price, Nanos), OrderId>,
}

impl OrderBookSide {
    fn insert_order(&mut self, key: OrderKey, idx: OrderId, vol: Vol) {
        self.orders.insert((key.1, key.2), idx);
        match self.volumes.get_mut(&key.1) {
            Some(v) => {
                v.0 += vol;
                v.1 += 1;
            }
            None => {
                self.volumes.insert(key.1, (vol, 1));
            }
        };
        self.vol += vol;
    }
    fn remove_order(&mut self, key: OrderKey, vol: Vol) {
        self.orders.remove(&(key.1, key.2));
        let vol_at_price = self.volumes.get_mut(&key.1).unwrap();
        vol_at_price.0 -= vol;
        vol_at_price.1 -= 1;
        if vol_at_price.1 == 0 {
            self.volumes.remove(&key.1);
        }
        self.vol -= vol;
    }
    fn remove_vol(&mut self, price: Price, vol: Vol) {
        self.volumes.get_mut(&price).unwrap().0 -= vol;
        self.vol -= vol;
    }
    fn best_price(&self) -> Price {
        match self.orders.first_key_value() {
            Some((k, _)) => k.0,
            None => Price::MAX,
        }
    }
    fn best_vol_and_orders(&self) -> (Vol, OrderCount) {
        match self.volumes.first_key_value() {
            Some((_, v)) => *v,
            None => (0, 0),
        }
    }
    fn best_vol(&self) -> Vol {
        match self.volumes.first_key_value() {
            Some((_, v)) => v.0,
            None => 0,
        }
    }
    fn vol(&self) -> Vol {
        self.vol
    }
    fn best_order_idx(&self) -> Option<OrderId> {
        self.orders.first_key_value().map(|kv: (&(Price, Nanos), &OrderId)| { let (_, v) = kv; *v })
    }
    fn vol_and_orders_at_price(&self, price: Price) -> (Vol, OrderCount) {
        match self.volumes.get(&price) {
            Some(x) => *x,
            None => (0, 0),
        }
    }
}
#[derive(Default)]
pub struct BidSide(OrderBookSide);
#[derive(Default)]
pub struct AskSide(OrderBookSide);

impl BidSide {
    fn new() -> Self {
        Self::default()
    }
    fn insert_order(&mut self, key: OrderKey, idx: OrderId, vol: Vol) {
        self.0.insert_order(key, idx, vol)
    }
    fn remove_order(&mut self, key: OrderKey, vol: Vol) {
        self.0.remove_order(key, vol)
    }
    fn remove_vol(&mut self, price: Price, vol: Vol) {
        self.0.remove_vol(price, vol)
    }
    fn best_price(&self) -> Price {
        Price::MAX - self.0.best_price()
    }
    fn best_vol_and_orders(&self) -> (Vol, OrderCount) {
        self.0.best_vol_and_orders()
    }
    fn best_vol(&self) -> Vol {
        self.0.best_vol()
    }
    fn vol(&self) -> Vol {
        self.0.vol()
    }
    fn best_order_idx(&self) -> Option<OrderId> {
        self.0.best_order_idx()
    }

    fn vol_and_orders_at_price(&self, price: Price) -> (Vol, OrderCount) {
        let price = Price::MAX - price;
        self.0.vol_and_orders_at_price(price)
    }
}

impl AskSide {
    fn new() -> Self {
        Self::default()
    }
    fn insert_order(&mut self, key: OrderKey, idx: OrderId, vol: Vol) {
        self.0.insert_order(key, idx, vol)
    }
    fn remove_order(&mut self, key: OrderKey, vol: Vol) {
        self.0.remove_order(key, vol)
    }
    fn remove_vol(&mut self, price: Price, vol: Vol) {
        self.0.remove_vol(price, vol)
    }
    fn best_price(&self) -> Price {
        self.0.best_price()
    }
    fn best_vol_and_orders(&self) -> (Vol, OrderCount) {
        self.0.best_vol_and_orders()
    }
    fn best_vol(&self) -> Vol {
        self.0.best_vol()
    }
    fn vol(&self) -> Vol {
        self.0.vol()
    }
    fn best_order_idx(&self) -> Option<OrderId> {
        self.0.best_order_idx()
    }

    fn vol_and_orders_at_price(&self, price: Price) -> (Vol, OrderCount) {
        self.0.vol_and_orders_at_price(price)
    }
}
pub fn get_bid_key(t: Nanos, price: Price) -> OrderKey {
    (Side::Bid, Price::MAX - price, t)
}
pub fn get_ask_key(t: Nanos, price: Price) -> OrderKey {
    (Side::Ask, price, t)
}
#[derive(Copy, Clone)]
pub struct OrderEntry {
    order: Order,
    key: OrderKey,
}


pub struct OrderBook<const LEVELS: usize = 10> {
    t: Nanos,
    // Market tick size
    tick_size: Price,
    trade_vol: Vol,
    
    ask_side: AskSide,
    
    bid_side: BidSide,
    orders: Vec<OrderEntry>,
    trades: Vec<Trade>,
    trading: bool,
}
#[derive(Debug)]
pub enum OrderError {
    PriceError { price: Price, tick_size: Price },
}



impl<const LEVELS: usize> OrderBook<LEVELS> {
    pub fn new(start_time: Nanos, tick_size: Price, trading: bool) -> Self {
        assert!(tick_size > 0);

        Self {
            t: start_time,
            tick_size,
            trade_vol: 0,
            ask_side: AskSide::new(),
            bid_side: BidSide::new(),
            orders: Vec::new(),
            trades: Vec::new(),
            trading,
        }
    }
    pub fn get_time(&self) -> Nanos {
        self.t
    }
    pub fn set_time(&mut self, t: Nanos) {
        self.t = t;
    }
    pub fn enable_trading(&mut self) {
        self.trading = true;
    }
    pub fn disable_trading(&mut self) {
        self.trading = false;
    }
    pub fn get_trade_vol(&self) -> Vol {
        self.trade_vol
    }
    pub fn reset_trade_vol(&mut self) {
        self.trade_vol = 0;
    }
    pub fn ask_vol(&self) -> Vol {
        self.ask_side.vol()
    }
    pub fn ask_best_vol(&self) -> Vol {
        self.ask_side.best_vol()
    }
    pub fn ask_best_vol_and_orders(&self) -> (Vol, OrderCount) {
        self.ask_side.best_vol_and_orders()
    }
    pub fn ask_levels(&self) -> [(Vol, OrderCount); LEVELS] {
        let start = self.bid_ask().1;
        core::array::from_fn(|i| {
            self.ask_side.vol_and_orders_at_price(
                start.wrapping_add(Price::try_from(i).unwrap() * self.tick_size),
            )
        })
    }
    pub fn bid_vol(&self) -> Vol {
        self.bid_side.vol()
    }
    pub fn bid_best_vol(&self) -> Vol {
        self.bid_side.best_vol()
    }
    pub fn bid_best_vol_and_orders(&self) -> (Vol, OrderCount) {
        self.bid_side.best_vol_and_orders()
    }
    pub fn bid_levels(&self) -> [(Vol, OrderCount); LEVELS] {
        let start = self.bid_ask().0;
        core::array::from_fn(|i| {
            self.bid_side.vol_and_orders_at_price(
                start.wrapping_sub(Price::try_from(i).unwrap() * self.tick_size),
            )
        })
    }
    pub fn bid_ask(&self) -> (Price, Price) {
        (self.bid_side.best_price(), self.ask_side.best_price())
    }
    pub fn mid_price(&self) -> f64 {
        let (bid, ask) = self.bid_ask();
        let spread = ask - bid;
        f64::from(bid) + 0.5 * f64::from(spread)
    }
    pub fn level_1_data(&self) -> Level1Data {
        let (bid_price, ask_price) = self.bid_ask();
        let (bid_touch_vol, bid_touch_orders) = self.bid_best_vol_and_orders();
        let (ask_touch_vol, ask_touch_orders) = self.ask_best_vol_and_orders();
        Level1Data {
            bid_price,
            ask_price,
            bid_vol: self.bid_vol(),
            ask_vol: self.ask_vol(),
            bid_touch_vol,
            ask_touch_vol,
            bid_touch_orders,
            ask_touch_orders,
        }
    }
    pub fn level_2_data(&self) -> Level2Data<LEVELS> {
        let (bid_price, ask_price) = self.bid_ask();
        Level2Data {
            bid_price,
            ask_price,
            bid_vol: self.bid_vol(),
            ask_vol: self.ask_vol(),
            bid_price_levels: self.bid_levels(),
            ask_price_levels: self.ask_levels(),
        }
    }
    fn current_order_id(&self) -> OrderId {
        self.orders.len()
    }
    pub fn order(&self, order_id: OrderId) -> &Order {
        &self.orders[order_id].order
    }
    pub fn create_order(
        &mut self,
        side: Side,
        vol: Vol,
        trader_id: TraderId,
        price: Option<Price>,
    ) -> Result<OrderId, OrderError> {
        let order_id = self.current_order_id();

        let order = match (side, price) {
            (Side::Bid, Some(p)) => {
                if p % self.tick_size != 0 {
                    return Err(OrderError::PriceError {
                        price: p,
                        tick_size: self.tick_size,
                    });
                }
                Order::buy_limit(self.t, vol, p, trader_id, order_id)
            }
            (Side::Bid, None) => Order::buy_market(self.t, vol, trader_id, order_id),
            (Side::Ask, Some(p)) => {
                if p % self.tick_size != 0 {
                    return Err(OrderError::PriceError {
                        price: p,
                        tick_size: self.tick_size,
                    });
                }
                Order::sell_limit(self.t, vol, p, trader_id, order_id)
            }
            (Side::Ask, None) => Order::sell_market(self.t, vol, trader_id, order_id),
        };

        let key = match side {
            Side::Bid => get_bid_key(0, order.price),
            Side::Ask => get_ask_key(0, order.price),
        };

        self.orders.push(OrderEntry { order, key });

        Ok(order_id)
    }
    pub fn create_and_place_order(
        &mut self,
        side: Side,
        vol: Vol,
        trader_id: TraderId,
        price: Option<Price>,
    ) -> Result<OrderId, OrderError> {
        let order_id = self.create_order(side, vol, trader_id, price)?;
        self.place_order(order_id);
        Ok(order_id)
    }
    #[verifier::exec_allows_no_decreases_clause]
    fn match_bid(&mut self, order_entry: &mut OrderEntry) {
        while (order_entry.order.vol > 0) && (order_entry.order.price >= self.ask_side.best_price())
        {
            let next_order_id = self.ask_side.best_order_idx();
            match next_order_id {
                Some(id) => {
                    let match_order = &mut self.orders.get_mut(id).unwrap();
                    let trade_vol = match_orders(
                        self.t,
                        &mut order_entry.order,
                        &mut match_order.order,
                        &mut self.trades,
                    );
                    self.trade_vol += trade_vol;
                    if match_order.order.status == Status::Filled {
                        self.ask_side.remove_order(match_order.key, trade_vol);
                    } else {
                        self.ask_side.remove_vol(match_order.key.1, trade_vol);
                    }
                }
                None => {
                    break;
                }
            }
        }
    }
    #[verifier::exec_allows_no_decreases_clause]
    fn match_ask(&mut self, order_entry: &mut OrderEntry) {
        while (order_entry.order.vol > 0) && (order_entry.order.price <= self.bid_side.best_price())
        {
            let next_order_id = self.bid_side.best_order_idx();
            match next_order_id {
                Some(id) => {
                    let match_order = &mut self.orders.get_mut(id).unwrap();
                    let trade_vol = match_orders(
                        self.t,
                        &mut order_entry.order,
                        &mut match_order.order,
                        &mut self.trades,
                    );
                    self.trade_vol += trade_vol;
                    if match_order.order.status == Status::Filled {
                        self.bid_side.remove_order(match_order.key, trade_vol);
                    } else {
                        self.bid_side.remove_vol(match_order.key.1, trade_vol);
                    }
                }
                None => {
                    break;
                }
            }
        }
    }
    fn place_bid_limit(&mut self, order_entry: &mut OrderEntry) {
        if self.trading {
            self.match_bid(order_entry);
        }
        if order_entry.order.status != Status::Filled {
            let key: OrderKey = (Side::Bid, order_entry.key.1, self.t);
            order_entry.key = key;
            self.bid_side
                .insert_order(key, order_entry.order.order_id, order_entry.order.vol)
        }
    }
    fn place_bid_market(&mut self, order_entry: &mut OrderEntry) {
        match self.trading {
            true => {
                self.match_bid(order_entry);
                if order_entry.order.status != Status::Filled {
                    order_entry.order.status = Status::Cancelled;
                    order_entry.order.end_time = self.t;
                }
            }
            false => {
                order_entry.order.status = Status::Rejected;
                order_entry.order.end_time = self.t;
            }
        }
    }
    fn place_ask_limit(&mut self, order_entry: &mut OrderEntry) {
        if self.trading {
            self.match_ask(order_entry);
        }
        if order_entry.order.status != Status::Filled {
            let key: OrderKey = (Side::Ask, order_entry.key.1, self.t);
            order_entry.key = key;
            self.ask_side
                .insert_order(key, order_entry.order.order_id, order_entry.order.vol)
        }
    }
    fn place_ask_market(&mut self, order_entry: &mut OrderEntry) {
        match self.trading {
            true => {
                self.match_ask(order_entry);
                if order_entry.order.status != Status::Filled {
                    order_entry.order.status = Status::Cancelled;
                    order_entry.order.end_time = self.t;
                }
            }
            false => {
                order_entry.order.status = Status::Rejected;
                order_entry.order.end_time = self.t;
            }
        }
    }
    pub fn place_order(&mut self, order_id: OrderId) {
        let mut order_entry = self.orders[order_id];

        if order_entry.order.status != Status::New {
            return;
        }

        order_entry.order.status = Status::Active;
        order_entry.order.arr_time = self.t;

        match order_entry.order.side {
            Side::Bid => {
                if order_entry.order.price == Price::MAX {
                    self.place_bid_market(&mut order_entry)
                } else {
                    self.place_bid_limit(&mut order_entry)
                }
            }
            Side::Ask => {
                if order_entry.order.price == 0 {
                    self.place_ask_market(&mut order_entry)
                } else {
                    self.place_ask_limit(&mut order_entry)
                }
            }
        }

        self.orders[order_id] = order_entry;
    }
    pub fn cancel_order(&mut self, order_id: OrderId) {
        let cancelled_order = self.orders.get_mut(order_id);

        match cancelled_order {
            Some(order_entry) => {
                if order_entry.order.status == Status::Active {
                    order_entry.order.status = Status::Cancelled;
                    order_entry.order.end_time = self.t;
                    match order_entry.key.0 {
                        Side::Bid => {
                            self.bid_side
                                .remove_order(order_entry.key, order_entry.order.vol);
                        }
                        Side::Ask => {
                            self.ask_side
                                .remove_order(order_entry.key, order_entry.order.vol);
                        }
                    }
                }
            }
            None => panic!("No order with id {} exists", order_id),
        }
    }
    fn reduce_order_vol(&mut self, order_entry: &mut OrderEntry, reduce_vol: Vol) {
        match order_entry.key.0 {
            Side::Bid => {
                order_entry.order.vol -= reduce_vol;
                self.bid_side.remove_vol(order_entry.key.1, reduce_vol)
            }
            Side::Ask => {
                order_entry.order.vol -= reduce_vol;
                self.ask_side.remove_vol(order_entry.key.1, reduce_vol)
            }
        }
    }
    fn replace_order(&mut self, order_entry: &mut OrderEntry, new_price: Price, new_vol: Vol) {
        match order_entry.key.0 {
            Side::Bid => self
                .bid_side
                .remove_order(order_entry.key, order_entry.order.vol),
            Side::Ask => self
                .ask_side
                .remove_order(order_entry.key, order_entry.order.vol),
        }

        order_entry.order.vol = new_vol;
        order_entry.order.price = new_price;

        if self.trading {
            match order_entry.key.0 {
                Side::Bid => self.match_bid(order_entry),
                Side::Ask => self.match_ask(order_entry),
            }
        }

        if order_entry.order.status != Status::Filled {
            match order_entry.key.0 {
                Side::Bid => {
                    let key: OrderKey = get_bid_key(self.t, new_price);
                    order_entry.key = key;

                    self.bid_side.insert_order(
                        key,
                        order_entry.order.order_id,
                        order_entry.order.vol,
                    );
                }
                Side::Ask => {
                    let key: OrderKey = get_ask_key(self.t, new_price);
                    order_entry.key = key;

                    self.ask_side.insert_order(
                        key,
                        order_entry.order.order_id,
                        order_entry.order.vol,
                    );
                }
            }
        }
    }
    pub fn modify_order(
        &mut self,
        order_id: OrderId,
        new_price: Option<Price>,
        new_vol: Option<Price>,
    ) {
        let mut order_entry = self.orders[order_id];

        if order_entry.order.status == Status::Active {
            match (new_price, new_vol) {
                (None, None) => (),
                (None, Some(v)) => {
                    if v < order_entry.order.vol {
                        let reduce_vol = order_entry.order.vol - v;
                        self.reduce_order_vol(&mut order_entry, reduce_vol);
                    } else {
                        let p = order_entry.order.price;
                        self.replace_order(&mut order_entry, p, v)
                    }
                }
                (Some(p), None) => {
                    let v = order_entry.order.vol;
                    self.replace_order(&mut order_entry, p, v);
                }
                (Some(p), Some(v)) => self.replace_order(&mut order_entry, p, v),
            }
        }

        self.orders[order_id] = order_entry;
    }
    pub fn process_event(&mut self, event: Event<OrderId>) {
        match event {
            Event::New { order_id } => self.place_order(order_id),
            Event::Cancellation { order_id } => self.cancel_order(order_id),
            Event::Modify {
                order_id,
                new_price,
                new_vol,
            } => self.modify_order(order_id, new_price, new_vol),
        }
    }
    pub fn get_orders(&self) -> Vec<&Order> {
        self.orders.iter().map(|x| &x.order).collect()
    }
    pub fn get_trades(&self) -> &Vec<Trade> {
        &self.trades
    }
    
}
fn match_orders(
    t: Nanos,
    agg_order: &mut Order,
    pass_order: &mut Order,
    trades: &mut Vec<Trade>,
) -> Vol {
    let trade_vol = min(agg_order.vol, pass_order.vol);
    agg_order.vol -= trade_vol;
    pass_order.vol -= trade_vol;
    trades.push(Trade {
        t,
        side: pass_order.side,
        price: pass_order.price,
        vol: trade_vol,
        active_order_id: agg_order.order_id,
        passive_order_id: pass_order.order_id,
    });
    if pass_order.vol == 0 {
        pass_order.end_time = t;
        pass_order.status = Status::Filled;
    };
    if agg_order.vol == 0 {
        agg_order.end_time = t;
        agg_order.status = Status::Filled;
    };

    trade_vol
}

struct OrderBookState<const LEVELS: usize = 10> {
    t: Nanos,
    tick_size: Price,
    trade_vol: Vol,
    orders: Vec<OrderEntry>,
    trades: Vec<Trade>,
    trading: bool,
}

struct OrderBookConversionErrror;



impl<const LEVELS: usize> std::convert::TryFrom<OrderBookState<LEVELS>> for OrderBook<{ LEVELS }> {
    type Error = OrderBookConversionErrror;

    fn try_from(state: OrderBookState<LEVELS>) -> Result<Self, Self::Error> {
        let mut bid_side = BidSide::default();
        let mut ask_side = AskSide::default();

        for OrderEntry { order, key } in state.orders.iter() {
            if order.status == Status::Active {
                match order.side {
                    Side::Bid => bid_side.insert_order(*key, order.order_id, order.vol),
                    Side::Ask => ask_side.insert_order(*key, order.order_id, order.vol),
                }
            }
        }

        Ok(Self {
            t: state.t,
            tick_size: state.tick_size,
            trade_vol: state.trade_vol,
            ask_side,
            bid_side,
            orders: state.orders,
            trades: state.trades,
            trading: state.trading,
        })
    }
}


use std::array;


pub struct Market<const ASSETS: usize, const LEVELS: usize = 10> {
    
    order_books: [OrderBook<LEVELS>; ASSETS],
}

impl<const ASSETS: usize, const LEVELS: usize> Market<ASSETS, LEVELS> {
    pub fn new(start_time: Nanos, tick_size: [Price; ASSETS], trading: bool) -> Self {
        Self {
            order_books: array::from_fn(|i| {
                OrderBook::<LEVELS>::new(start_time, tick_size[i], trading)
            }),
        }
    }
    pub fn get_order_book(&self, asset: AssetIdx) -> &OrderBook<LEVELS> {
        &self.order_books[asset]
    }
    pub fn get_order_book_mut(&mut self, asset: AssetIdx) -> &mut OrderBook<LEVELS> {
        &mut self.order_books[asset]
    }
    pub fn get_time(&self) -> Nanos {
        self.order_books[0].get_time()
    }
    pub fn set_time(&mut self, t: Nanos) {
        for book in self.order_books.iter_mut() {
            book.set_time(t)
        }
    }
    pub fn enable_trading(&mut self) {
        for book in self.order_books.iter_mut() {
            book.enable_trading()
        }
    }
    pub fn disable_trading(&mut self) {
        for book in self.order_books.iter_mut() {
            book.disable_trading()
        }
    }
    pub fn get_trade_vols(&self) -> [Vol; ASSETS] {
        array::from_fn(|i| self.order_books[i].get_trade_vol())
    }
    pub fn reset_trade_vols(&mut self) {
        for book in self.order_books.iter_mut() {
            book.reset_trade_vol();
        }
    }
    pub fn bid_vols(&self) -> [Vol; ASSETS] {
        array::from_fn(|i| self.order_books[i].bid_vol())
    }
    pub fn bid_best_vols(&self) -> [Vol; ASSETS] {
        array::from_fn(|i| self.order_books[i].bid_best_vol())
    }
    pub fn bid_best_vol_and_orders(&self) -> [(Vol, OrderCount); ASSETS] {
        array::from_fn(|i| self.order_books[i].bid_best_vol_and_orders())
    }
    pub fn bid_levels(&self) -> [[(Vol, OrderCount); LEVELS]; ASSETS] {
        array::from_fn(|i| self.order_books[i].bid_levels())
    }
    pub fn ask_vols(&self) -> [Vol; ASSETS] {
        array::from_fn(|i| self.order_books[i].ask_vol())
    }
    pub fn ask_best_vols(&self) -> [Vol; ASSETS] {
        array::from_fn(|i| self.order_books[i].ask_best_vol())
    }
    pub fn ask_best_vol_and_orders(&self) -> [(Vol, OrderCount); ASSETS] {
        array::from_fn(|i| self.order_books[i].ask_best_vol_and_orders())
    }
    pub fn ask_levels(&self) -> [[(Vol, OrderCount); LEVELS]; ASSETS] {
        array::from_fn(|i| self.order_books[i].ask_levels())
    }
    pub fn bid_asks(&self) -> [(Price, Price); ASSETS] {
        array::from_fn(|i| self.order_books[i].bid_ask())
    }
    pub fn level_2_data(&self) -> [Level2Data<LEVELS>; ASSETS] {
        array::from_fn(|i| {
            let (bid_price, ask_price) = self.order_books[i].bid_ask();
            Level2Data {
                bid_price,
                ask_price,
                bid_vol: self.order_books[i].bid_vol(),
                ask_vol: self.order_books[i].ask_vol(),
                bid_price_levels: self.order_books[i].bid_levels(),
                ask_price_levels: self.order_books[i].ask_levels(),
            }
        })
    }
    pub fn order(&self, order_id: MarketOrderId) -> &Order {
        self.order_books[order_id.0].order(order_id.1)
    }
    pub fn create_order(
        &mut self,
        asset: AssetIdx,
        side: Side,
        vol: Vol,
        trader_id: TraderId,
        price: Option<Price>,
    ) -> Result<MarketOrderId, OrderError> {
        let id = self.order_books[asset].create_order(side, vol, trader_id, price)?;
        Ok((asset, id))
    }
    pub fn create_and_place_order(
        &mut self,
        asset: AssetIdx,
        side: Side,
        vol: Vol,
        trader_id: TraderId,
        price: Option<Price>,
    ) -> Result<MarketOrderId, OrderError> {
        let id = self.order_books[asset].create_and_place_order(side, vol, trader_id, price)?;
        Ok((asset, id))
    }
    pub fn place_order(&mut self, order_id: MarketOrderId) {
        self.order_books[order_id.0].place_order(order_id.1)
    }
    pub fn cancel_order(&mut self, order_id: MarketOrderId) {
        self.order_books[order_id.0].cancel_order(order_id.1)
    }
    pub fn modify_order(
        &mut self,
        order_id: MarketOrderId,
        new_price: Option<Price>,
        new_vol: Option<Price>,
    ) {
        self.order_books[order_id.0].modify_order(order_id.1, new_price, new_vol)
    }
    pub fn process_event(&mut self, event: Event<MarketOrderId>) {
        match event {
            Event::New { order_id } => self.place_order(order_id),
            Event::Cancellation { order_id } => self.cancel_order(order_id),
            Event::Modify {
                order_id,
                new_price,
                new_vol,
            } => self.modify_order(order_id, new_price, new_vol),
        }
    }
    pub fn get_orders(&self, asset: AssetIdx) -> Vec<&Order> {
        self.order_books[asset].get_orders()
    }
    
    
}



use std::mem;
pub assume_specification<T: Default> [core::mem::take::<T>] (x: &mut T) -> (r: T)
    ensures r == *old(x),
;
pub trait RngCore { }
pub trait SliceRandom {
    fn shuffle<R: RngCore>(&mut self, rng: &mut R);
}
impl<T> SliceRandom for Vec<T> {
    #[verifier::external_body]
    fn shuffle<R: RngCore>(&mut self, rng: &mut R)
        ensures final(self)@.to_multiset() == old(self)@.to_multiset()
    { unimplemented!() }
}
pub struct Level2DataRecords<const N: usize> {
    pub prices: (Vec<Price>, Vec<Price>),
    pub volumes: (Vec<Vol>, Vec<Vol>),
    pub volumes_at_levels: ([Vec<Vol>; N], [Vec<Vol>; N]),
    pub orders_at_levels: ([Vec<OrderCount>; N], [Vec<OrderCount>; N]),
}

impl<const N: usize> Default for Level2DataRecords<N> {
    fn default() -> Self {
        Self::new()
    }
}

impl<const N: usize> Level2DataRecords<N> {
    pub fn new() -> Self {
        Self {
            prices: (Vec::new(), Vec::new()),
            volumes: (Vec::new(), Vec::new()),
            volumes_at_levels: (
                array::from_fn(|_i: usize| Vec::new()),
                array::from_fn(|_i: usize| Vec::new()),
            ),
            orders_at_levels: (
                array::from_fn(|_i: usize| Vec::new()),
                array::from_fn(|_i: usize| Vec::new()),
            ),
        }
    }
    pub fn append_record(&mut self, record: &Level2Data<N>) {
        self.prices.0.push(record.bid_price);
        self.prices.1.push(record.ask_price);
        self.volumes.0.push(record.bid_vol);
        self.volumes.1.push(record.ask_vol);
        for i in 0..N {
            self.volumes_at_levels.0[i].push(record.bid_price_levels[i].0);
            self.orders_at_levels.0[i].push(record.bid_price_levels[i].1);

            self.volumes_at_levels.1[i].push(record.ask_price_levels[i].0);
            self.orders_at_levels.1[i].push(record.ask_price_levels[i].1);
        }
    }
}pub struct Env<const LEVELS: usize = 10> {
    step_size: Nanos,
    order_book: OrderBook<LEVELS>,
    trade_vols: Vec<Vol>,
    transactions: Vec<Event<OrderId>>,
    level_2_data: Level2Data<LEVELS>,
    level_2_data_records: Level2DataRecords<LEVELS>,
}

impl<const LEVELS: usize> Env<LEVELS> {
    pub fn new(start_time: Nanos, tick_size: Price, step_size: Nanos, trading: bool) -> Self {
        let order_book = OrderBook::new(start_time, tick_size, trading);
        let level_2_data = order_book.level_2_data();
        Self {
            step_size,
            order_book,
            trade_vols: Vec::new(),
            transactions: Vec::new(),
            level_2_data,
            level_2_data_records: Level2DataRecords::new(),
        }
    }
    pub fn step<R: RngCore>(&mut self, rng: &mut R) {
        let start_time = self.order_book.get_time();
        self.order_book.reset_trade_vol();

        let mut transactions = mem::take(&mut self.transactions);
        transactions.shuffle(rng);

        let mut i: usize = 0;
        for t in transactions {
            self.order_book
                .set_time(start_time + Nanos::try_from(i).unwrap());
            self.order_book.process_event(t);
            i = i + 1;
        }

        self.order_book.set_time(start_time + self.step_size);

        // Update data records
        self.level_2_data = self.order_book.level_2_data();
        self.level_2_data_records.append_record(&self.level_2_data);
        self.trade_vols.push(self.order_book.get_trade_vol());
    }
    pub fn enable_trading(&mut self) {
        self.order_book.enable_trading();
    }
    pub fn disable_trading(&mut self) {
        self.order_book.disable_trading();
    }
    pub fn place_order(
        &mut self,
        side: Side,
        vol: Vol,
        trader_id: TraderId,
        price: Option<Price>,
    ) -> Result<OrderId, OrderError> {
        let order_id = self.order_book.create_order(side, vol, trader_id, price)?;
        self.transactions.push(Event::New { order_id });
        Ok(order_id)
    }
    pub fn cancel_order(&mut self, order_id: OrderId) {
        self.transactions.push(Event::Cancellation { order_id })
    }
    pub fn modify_order(
        &mut self,
        order_id: OrderId,
        new_price: Option<Price>,
        new_vol: Option<Vol>,
    ) {
        self.transactions.push(Event::Modify {
            order_id,
            new_price,
            new_vol,
        })
    }
    pub fn get_prices(&self) -> &(Vec<Price>, Vec<Price>) {
        &self.level_2_data_records.prices
    }
    pub fn get_volumes(&self) -> &(Vec<Vol>, Vec<Vol>) {
        &self.level_2_data_records.volumes
    }
    pub fn get_touch_volumes(&self) -> (&Vec<Vol>, &Vec<Vol>) {
        (
            &self.level_2_data_records.volumes_at_levels.0[0],
            &self.level_2_data_records.volumes_at_levels.1[0],
        )
    }
    pub fn get_touch_order_counts(&self) -> (&Vec<OrderCount>, &Vec<OrderCount>) {
        (
            &self.level_2_data_records.orders_at_levels.0[0],
            &self.level_2_data_records.orders_at_levels.1[0],
        )
    }
    pub fn get_trade_vols(&self) -> &Vec<Vol> {
        &self.trade_vols
    }
    pub fn get_orders(&self) -> Vec<&Order> {
        self.order_book.get_orders()
    }
    pub fn get_orderbook(&self) -> &OrderBook<LEVELS> {
        &self.order_book
    }
    pub fn get_level_2_data_history(&self) -> &Level2DataRecords<LEVELS> {
        &self.level_2_data_records
    }
    pub fn get_trades(&self) -> &Vec<Trade> {
        self.order_book.get_trades()
    }
    pub fn order(&self, order_id: OrderId) -> &Order {
        self.order_book.order(order_id)
    }
    pub fn order_status(&self, order_id: OrderId) -> Status {
        self.order_book.order(order_id).status
    }
    pub fn level_2_data(&self) -> &Level2Data<LEVELS> {
        &self.level_2_data
    }
}


}
fn main(){}
