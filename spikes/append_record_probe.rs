use vstd::prelude::*;
verus! {
pub type Vol = u32; pub type Price = u32; pub type OrderCount = u32;
pub struct Level2Data<const N: usize> {
    pub bid_price: Price, pub ask_price: Price, pub bid_vol: Vol, pub ask_vol: Vol,
    pub bid_price_levels: [(Vol, OrderCount); N], pub ask_price_levels: [(Vol, OrderCount); N],
}
pub struct Level2DataRecords<const N: usize> {
    pub prices: (Vec<Price>, Vec<Price>),
    pub volumes: (Vec<Vol>, Vec<Vol>),
    pub volumes_at_levels: ([Vec<Vol>; N], [Vec<Vol>; N]),
    pub orders_at_levels: ([Vec<OrderCount>; N], [Vec<OrderCount>; N]),
}
impl<const N: usize> Level2DataRecords<N> {
    pub fn append_record(&mut self, record: &Level2Data<N>)
        ensures
            final(self).prices.0@ == old(self).prices.0@.push(record.bid_price),
            final(self).prices.1@ == old(self).prices.1@.push(record.ask_price),
            final(self).volumes.0@ == old(self).volumes.0@.push(record.bid_vol),
            final(self).volumes.1@ == old(self).volumes.1@.push(record.ask_vol),
            forall|k: int| 0 <= k < N ==> #[trigger] final(self).volumes_at_levels.0@[k]@ == old(self).volumes_at_levels.0@[k]@.push(record.bid_price_levels@[k].0),
            forall|k: int| 0 <= k < N ==> #[trigger] final(self).orders_at_levels.0@[k]@ == old(self).orders_at_levels.0@[k]@.push(record.bid_price_levels@[k].1),
            forall|k: int| 0 <= k < N ==> #[trigger] final(self).volumes_at_levels.1@[k]@ == old(self).volumes_at_levels.1@[k]@.push(record.ask_price_levels@[k].0),
            forall|k: int| 0 <= k < N ==> #[trigger] final(self).orders_at_levels.1@[k]@ == old(self).orders_at_levels.1@[k]@.push(record.ask_price_levels@[k].1),
    {
        self.prices.0.push(record.bid_price);
        self.prices.1.push(record.ask_price);
        self.volumes.0.push(record.bid_vol);
        self.volumes.1.push(record.ask_vol);
        for i in 0..N
            invariant
                self.prices.0@ == old(self).prices.0@.push(record.bid_price), self.prices.1@ == old(self).prices.1@.push(record.ask_price), self.volumes.0@ == old(self).volumes.0@.push(record.bid_vol), self.volumes.1@ == old(self).volumes.1@.push(record.ask_vol),
                forall|k: int| 0 <= k < i ==> #[trigger] self.volumes_at_levels.0@[k]@ == old(self).volumes_at_levels.0@[k]@.push(record.bid_price_levels@[k].0),
                forall|k: int| 0 <= k < i ==> #[trigger] self.orders_at_levels.0@[k]@ == old(self).orders_at_levels.0@[k]@.push(record.bid_price_levels@[k].1),
                forall|k: int| 0 <= k < i ==> #[trigger] self.volumes_at_levels.1@[k]@ == old(self).volumes_at_levels.1@[k]@.push(record.ask_price_levels@[k].0),
                forall|k: int| 0 <= k < i ==> #[trigger] self.orders_at_levels.1@[k]@ == old(self).orders_at_levels.1@[k]@.push(record.ask_price_levels@[k].1),
                forall|k: int| i <= k < N ==> #[trigger] self.volumes_at_levels.0@[k] == old(self).volumes_at_levels.0@[k],
                forall|k: int| i <= k < N ==> #[trigger] self.orders_at_levels.0@[k] == old(self).orders_at_levels.0@[k],
                forall|k: int| i <= k < N ==> #[trigger] self.volumes_at_levels.1@[k] == old(self).volumes_at_levels.1@[k],
                forall|k: int| i <= k < N ==> #[trigger] self.orders_at_levels.1@[k] == old(self).orders_at_levels.1@[k],
        {
            self.volumes_at_levels.0[i].push(record.bid_price_levels[i].0);
            self.orders_at_levels.0[i].push(record.bid_price_levels[i].1);

            self.volumes_at_levels.1[i].push(record.ask_price_levels[i].0);
            self.orders_at_levels.1[i].push(record.ask_price_levels[i].1);
        }
    }
}
}
fn main(){}
