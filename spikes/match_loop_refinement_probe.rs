#![feature(allocator_api)]
use vstd::prelude::*;
use std::collections::BTreeMap;
use std::cmp::min;
verus! {

pub uninterp spec fn key_le<K>(a: K, b: K) -> bool;
pub broadcast axiom fn axiom_key_le_u32(a: u32, b: u32)
    ensures #[trigger] key_le(a, b) == (a <= b);
pub broadcast axiom fn axiom_key_le_pair(a: (u32, u64), b: (u32, u64))
    ensures #[trigger] key_le(a, b) == (a.0 < b.0 || (a.0 == b.0 && a.1 <= b.1));
pub open spec fn is_min_key<K, V>(m: Map<K, V>, k: K) -> bool {
    m.contains_key(k) && forall|k2: K| #[trigger] m.contains_key(k2) ==> key_le(k, k2)
}
pub assume_specification<K: Ord, V, A: std::alloc::Allocator + Clone> [BTreeMap::<K, V, A>::first_key_value] (m: &BTreeMap<K, V, A>) -> (r: Option<(&K, &V)>)
    ensures
        r is None <==> m@.dom() =~= Set::<K>::empty(),
        r matches Some(kv) ==> is_min_key(m@, *kv.0) && m@[*kv.0] == *kv.1,
;
pub assume_specification<T: Ord> [core::cmp::min] (a: T, b: T) -> (r: T)
    ensures (key_le(a, b) ==> r == a) && (!key_le(a, b) ==> r == b),
;

pub type OrderId = usize;
pub type Nanos = u64;
pub type Price = u32;
pub type Vol = u32;
pub type TraderId = u32;
pub type OrderCount = u32;
#[derive(Clone, Copy, Debug)]
pub enum Side { Bid, Ask }
pub type OrderKey = (Side, u32, u64);
#[derive(Clone, PartialEq, Eq, Copy, Debug, Structural)]
pub enum Status { New, Active, Filled, Cancelled, Rejected }

#[derive(Clone, Copy)]
pub struct Order {
    pub side: Side, pub status: Status, pub arr_time: Nanos, pub end_time: Nanos, pub vol: Vol, pub start_vol: Vol,
    pub price: Price, pub trader_id: TraderId, pub order_id: OrderId,
}
pub struct Trade { pub t: Nanos, pub side: Side, pub price: Price, pub vol: Vol, pub active_order_id: OrderId, pub passive_order_id: OrderId }
#[derive(Copy, Clone)]
pub struct OrderEntry { order: Order, key: OrderKey }

// ---------------- side (real code, structural contracts) ----------------
#[derive(Default)]
pub struct OrderBookSide {
    vol: Vol,
    volumes: BTreeMap<Price, (Vol, OrderCount)>,
    orders: BTreeMap<(Price, Nanos), OrderId>,
}
impl OrderBookSide {
    spec fn sv(&self) -> int { self.vol as int }
    spec fn lv(&self) -> Map<Price, (Vol, OrderCount)> { self.volumes@ }
    spec fn om(&self) -> Map<(Price, Nanos), OrderId> { self.orders@ }

    fn remove_order(&mut self, key: OrderKey, vol: Vol)
        requires
            old(self).lv().contains_key(key.1),
            old(self).lv()[key.1].0 >= vol, old(self).lv()[key.1].1 >= 1,
            old(self).sv() >= vol,
        ensures
            final(self).om() == old(self).om().remove((key.1, key.2)),
            final(self).sv() == old(self).sv() - vol,
            final(self).lv() == (if old(self).lv()[key.1].1 == 1 { old(self).lv().remove(key.1) } else {
                old(self).lv().insert(key.1, ((old(self).lv()[key.1].0 - vol) as u32, (old(self).lv()[key.1].1 - 1) as u32)) }),
    {
        self.orders.remove(&(key.1, key.2));
        let vol_at_price = self.volumes.get_mut(&key.1).unwrap();
        vol_at_price.0 -= vol;
        vol_at_price.1 -= 1;
        if vol_at_price.1 == 0 {
            self.volumes.remove(&key.1);
        }
        self.vol -= vol;
    }
    fn remove_vol(&mut self, price: Price, vol: Vol)
        requires
            old(self).lv().contains_key(price),
            old(self).lv()[price].0 >= vol,
            old(self).sv() >= vol,
        ensures
            final(self).om() == old(self).om(),
            final(self).sv() == old(self).sv() - vol,
            final(self).lv() == old(self).lv().insert(price, ((old(self).lv()[price].0 - vol) as u32, old(self).lv()[price].1)),
    {
        self.volumes.get_mut(&price).unwrap().0 -= vol;
        self.vol -= vol;
    }
    fn best_price(&self) -> (r: Price)
        ensures r == (if self.om().dom() =~= Set::empty() { u32::MAX } else { min_k(self.om()).0 }),
    {
        proof { lemma_min_unique(self.om()); }
        match self.orders.first_key_value() {
            Some((k, _)) => { k.0 },
            None => Price::MAX,
        }
    }
    fn best_order_idx(&self) -> (r: Option<OrderId>)
        ensures r == (if self.om().dom() =~= Set::empty() { None } else { Some(self.om()[min_k(self.om())]) }),
    {
        proof { lemma_min_unique(self.om()); }
        self.orders.first_key_value().map(|kv: (&(Price, Nanos), &OrderId)| -> (o: OrderId) ensures o == *kv.1 { let (_, v) = kv; *v })
    }
}
spec fn min_k(m: Map<(Price, Nanos), OrderId>) -> (Price, Nanos) { choose|k: (Price, Nanos)| is_min_key(m, k) }
proof fn lemma_min_unique(m: Map<(Price, Nanos), OrderId>)
    ensures forall|a: (Price, Nanos), b: (Price, Nanos)| is_min_key(m, a) && is_min_key(m, b) ==> a == b,
            forall|a: (Price, Nanos)| is_min_key(m, a) ==> min_k(m) == a,
{
    broadcast use axiom_key_le_pair;
    assert forall|a: (Price, Nanos), b: (Price, Nanos)| is_min_key(m, a) && is_min_key(m, b) implies a == b by {
        assert(key_le(a, b) && key_le(b, a));
    }
}

// ---------------- book ----------------
pub struct Book {
    t: Nanos,
    trade_vol: Vol,
    ask_side: OrderBookSide,
    orders: Vec<OrderEntry>,
    trades: Vec<Trade>,
}

spec fn fill(o: Order, v: Vol, t: Nanos) -> Order {
    if o.vol == v { Order { vol: 0, end_time: t, status: Status::Filled, ..o } } else { Order { vol: (o.vol - v) as u32, ..o } }
}
spec fn ra(e: OrderEntry) -> bool { e.order.status == Status::Active && e.key.0 == Side::Ask }
spec fn kle(a: OrderEntry, b: OrderEntry) -> bool { a.key.1 < b.key.1 || (a.key.1 == b.key.1 && a.key.2 <= b.key.2) }
spec fn is_best(os: Seq<OrderEntry>, i: int) -> bool {
    0 <= i < os.len() && ra(os[i]) && forall|j: int| 0 <= j < os.len() && ra(os[j]) ==> kle(os[i], os[j])
}
spec fn has_resting(os: Seq<OrderEntry>) -> bool { exists|i: int| 0 <= i < os.len() && ra(os[i]) }
spec fn best(os: Seq<OrderEntry>) -> int { choose|i: int| is_best(os, i) }

spec fn cvol(e: OrderEntry, p: u32) -> int { if ra(e) && e.key.1 == p { e.order.vol as int } else { 0 } }
spec fn ccnt(e: OrderEntry, p: u32) -> nat { if ra(e) && e.key.1 == p { 1 } else { 0 } }
spec fn tvol(e: OrderEntry) -> int { if ra(e) { e.order.vol as int } else { 0 } }
spec fn tcnt(e: OrderEntry) -> nat { if ra(e) { 1 } else { 0 } }
spec fn lvl_vol(os: Seq<OrderEntry>, p: u32) -> int decreases os.len() { if os.len() == 0 { 0 } else { lvl_vol(os.drop_last(), p) + cvol(os.last(), p) } }
spec fn lvl_cnt(os: Seq<OrderEntry>, p: u32) -> nat decreases os.len() { if os.len() == 0 { 0 } else { lvl_cnt(os.drop_last(), p) + ccnt(os.last(), p) } }
spec fn tot_vol(os: Seq<OrderEntry>) -> int decreases os.len() { if os.len() == 0 { 0 } else { tot_vol(os.drop_last()) + tvol(os.last()) } }
spec fn tot_cnt(os: Seq<OrderEntry>) -> nat decreases os.len() { if os.len() == 0 { 0 } else { tot_cnt(os.drop_last()) + tcnt(os.last()) } }

proof fn lemma_update(os: Seq<OrderEntry>, i: int, e: OrderEntry, p: u32)
    requires 0 <= i < os.len()
    ensures
        lvl_vol(os.update(i, e), p) == lvl_vol(os, p) - cvol(os[i], p) + cvol(e, p),
        lvl_cnt(os.update(i, e), p) == lvl_cnt(os, p) - ccnt(os[i], p) + ccnt(e, p),
        tot_vol(os.update(i, e)) == tot_vol(os) - tvol(os[i]) + tvol(e),
        tot_cnt(os.update(i, e)) == tot_cnt(os) - tcnt(os[i]) + tcnt(e),
    decreases os.len()
{
    let n = os.update(i, e);
    if i == os.len() - 1 {
        assert(n.drop_last() =~= os.drop_last());
    } else {
        assert(n.drop_last() =~= os.drop_last().update(i, e));
        lemma_update(os.drop_last(), i, e, p);
    }
}
proof fn lemma_nonneg(os: Seq<OrderEntry>, p: u32)
    ensures lvl_vol(os, p) >= 0, lvl_cnt(os, p) >= 0, tot_vol(os) >= 0, tot_cnt(os) >= 0, lvl_vol(os, p) <= tot_vol(os),
    decreases os.len()
{ if os.len() > 0 { lemma_nonneg(os.drop_last(), p); } }
proof fn lemma_member(os: Seq<OrderEntry>, i: int, p: u32)
    requires 0 <= i < os.len(), ra(os[i]), os[i].key.1 == p
    ensures lvl_vol(os, p) >= os[i].order.vol, lvl_cnt(os, p) >= 1, tot_vol(os) >= os[i].order.vol, tot_cnt(os) >= 1
    decreases os.len()
{
    lemma_nonneg(os.drop_last(), p);
    if i < os.len() - 1 { lemma_member(os.drop_last(), i, p); }
}
proof fn lemma_cnt_pos(os: Seq<OrderEntry>, p: u32)
    requires lvl_cnt(os, p) > 0
    ensures exists|i: int| 0 <= i < os.len() && ra(os[i]) && os[i].key.1 == p
    decreases os.len()
{
    if os.len() > 0 {
        if ccnt(os.last(), p) == 1 { assert(ra(os[os.len() - 1]) && os[os.len() - 1].key.1 == p); }
        else { lemma_cnt_pos(os.drop_last(), p); let i = choose|i: int| 0 <= i < os.drop_last().len() && ra(os.drop_last()[i]) && os.drop_last()[i].key.1 == p; assert(ra(os[i]) && os[i].key.1 == p); }
    }
}

spec fn wf(os: Seq<OrderEntry>, s: OrderBookSide) -> bool {
    &&& forall|i: int| 0 <= i < os.len() ==> (#[trigger] os[i]).order.order_id == i
    &&& forall|i: int| 0 <= i < os.len() && ra(#[trigger] os[i]) ==> os[i].order.vol >= 1 && os[i].key.1 == os[i].order.price
            && s.om().contains_key((os[i].key.1, os[i].key.2)) && s.om()[(os[i].key.1, os[i].key.2)] == i
    &&& forall|k: (Price, Nanos)| #[trigger] s.om().contains_key(k) ==> 0 <= s.om()[k] < os.len() && ra(os[s.om()[k] as int]) && (os[s.om()[k] as int].key.1, os[s.om()[k] as int].key.2) == k
    &&& forall|p: u32| #[trigger] s.lv().contains_key(p) <==> lvl_cnt(os, p) > 0
    &&& forall|p: u32| #[trigger] s.lv().contains_key(p) ==> s.lv()[p].0 == lvl_vol(os, p) && s.lv()[p].1 == lvl_cnt(os, p)
    &&& s.sv() == tot_vol(os)
}

// reference matcher for an aggressive bid, written from the property statement
spec fn ref_match_bid(os: Seq<OrderEntry>, trs: Seq<Trade>, tv: int, agg: Order, t: Nanos) -> (Seq<OrderEntry>, Seq<Trade>, int, Order)
    decreases tot_cnt(os), agg.vol
{
    if agg.vol > 0 && has_resting(os) && 0 <= best(os) < os.len() && agg.price >= os[best(os)].order.price && os[best(os)].order.vol > 0 {
        let b = best(os);
        let v = if agg.vol <= os[b].order.vol { agg.vol } else { os[b].order.vol };
        let pass2 = fill(os[b].order, v, t);
        let agg2 = fill(agg, v, t);
        let tr = Trade { t, side: os[b].order.side, price: os[b].order.price, vol: v, active_order_id: agg.order_id, passive_order_id: os[b].order.order_id };
        let os2 = os.update(b, OrderEntry { order: pass2, key: os[b].key });
        if tot_cnt(os2) < tot_cnt(os) || (tot_cnt(os2) == tot_cnt(os) && agg2.vol < agg.vol) {
            ref_match_bid(os2, trs.push(tr), tv + v, agg2, t)
        } else { (os, trs, tv, agg) }  // unreachable, makes termination syntactic
    } else {
        (os, trs, tv, agg)
    }
}

proof fn lemma_best(os: Seq<OrderEntry>, s: OrderBookSide)
    requires wf(os, s)
    ensures
        s.om().dom() =~= Set::empty() ==> !has_resting(os),
        !(s.om().dom() =~= Set::empty()) ==> {
            let k = min_k(s.om()); let b = s.om()[k] as int;
            is_min_key(s.om(), k) && has_resting(os) && best(os) == b && is_best(os, b) && os[b].order.price == k.0 && os[b].order.vol >= 1
            && os[b].key.1 == k.0 && os[b].key.2 == k.1 && 0 <= b < os.len()
        },
{
    broadcast use axiom_key_le_pair;
    if s.om().dom() =~= Set::empty() {
        if has_resting(os) {
            let i = choose|i: int| 0 <= i < os.len() && ra(os[i]);
            assert(s.om().contains_key((os[i].key.1, os[i].key.2)));
            assert(s.om().dom().contains((os[i].key.1, os[i].key.2)));
        }
    } else {
        let k0 = choose|k: (Price, Nanos)| s.om().dom().contains(k);
        assert(s.om().contains_key(k0));
        // existence of a minimum: the image index set is finite; use resting index with min key via choose
        lemma_min_exists(os, s);
        let k = min_k(s.om());
        assert(is_min_key(s.om(), k));
        let b = s.om()[k] as int;
        assert forall|j: int| 0 <= j < os.len() && ra(os[j]) implies kle(os[b], os[j]) by {
            assert(s.om().contains_key((os[j].key.1, os[j].key.2)));
            assert(key_le(k, (os[j].key.1, os[j].key.2)));
        }
        assert(is_best(os, b));
        let bb = best(os);
        assert(is_best(os, bb));
        assert(kle(os[b], os[bb]) && kle(os[bb], os[b]));
        assert(s.om()[(os[bb].key.1, os[bb].key.2)] == bb);
    }
}
// a non-empty priority map of a wf book has a minimum key (induction over the order sequence)
proof fn lemma_min_exists(os: Seq<OrderEntry>, s: OrderBookSide)
    requires wf(os, s), !(s.om().dom() =~= Set::empty())
    ensures exists|k: (Price, Nanos)| is_min_key(s.om(), k)
{
    broadcast use axiom_key_le_pair;
    let k0 = choose|k: (Price, Nanos)| s.om().dom().contains(k);
    assert(s.om().contains_key(k0));
    let i0 = s.om()[k0] as int;
    let m = lemma_min_prefix(os, os.len() as int, i0);
    let km = (os[m].key.1, os[m].key.2);
    assert(s.om().contains_key(km));
    assert forall|k2: (Price, Nanos)| s.om().contains_key(k2) implies key_le(km, k2) by {
        let j = s.om()[k2] as int;
        assert(kle(os[m], os[j]));
    }
    assert(is_min_key(s.om(), km));
}
proof fn lemma_min_prefix(os: Seq<OrderEntry>, n: int, i0: int) -> (m: int)
    requires 0 <= i0 < n <= os.len(), ra(os[i0])
    ensures 0 <= m < n, ra(os[m]), forall|j: int| 0 <= j < n && ra(os[j]) ==> kle(os[m], os[j])
    decreases n
{
    if n - 1 == i0 {
        if exists|i: int| 0 <= i < n - 1 && ra(os[i]) {
            let i1 = choose|i: int| 0 <= i < n - 1 && ra(os[i]);
            let m1 = lemma_min_prefix(os, n - 1, i1);
            if kle(os[m1], os[n - 1]) { m1 } else { n - 1 }
        } else { n - 1 }
    } else {
        let m1 = lemma_min_prefix(os, n - 1, i0);
        if ra(os[n - 1]) && !kle(os[m1], os[n - 1]) { n - 1 } else { m1 }
    }
}

impl Book {
    spec fn wfb(&self) -> bool { wf(self.orders@, self.ask_side) }

    #[verifier::exec_allows_no_decreases_clause]
    fn match_bid(&mut self, order_entry: &mut OrderEntry)
        requires
            old(self).wfb(),
            old(self).trade_vol as int + old(order_entry).order.vol <= u32::MAX,
        ensures
            final(self).wfb(),
            (final(self).orders@, final(self).trades@, final(self).trade_vol as int, final(order_entry).order)
                == ref_match_bid(old(self).orders@, old(self).trades@, old(self).trade_vol as int, old(order_entry).order, old(self).t),
            final(self).t == old(self).t,
            final(order_entry).key == old(order_entry).key,
    {
        while (order_entry.order.vol > 0) && (order_entry.order.price >= self.ask_side.best_price())
            invariant
                self.wfb(),
                self.t == old(self).t,
                order_entry.key == old(order_entry).key,
                self.trade_vol as int + order_entry.order.vol <= u32::MAX,
                ref_match_bid(self.orders@, self.trades@, self.trade_vol as int, order_entry.order, self.t)
                    == ref_match_bid(old(self).orders@, old(self).trades@, old(self).trade_vol as int, old(order_entry).order, old(self).t),
            ensures
                order_entry.order.vol == 0 || self.ask_side.om().dom() =~= Set::empty() || order_entry.order.price < min_k(self.ask_side.om()).0,
        {
            let next_order_id = self.ask_side.best_order_idx();
            match next_order_id {
                Some(id) => {
                    proof {
                        let os = self.orders@;
                        lemma_best(os, self.ask_side);
                        lemma_member(os, id as int, os[id as int].key.1);
                        assert(lvl_cnt(os, os[id as int].key.1) > 0);
                        assert(self.ask_side.lv().contains_key(os[id as int].key.1));
                        lemma_nonneg(os, os[id as int].key.1);
                    }
                    let ghost os0 = self.orders@;
                    let ghost side0 = self.ask_side;
                    let ghost agg0 = order_entry.order;
                    let ghost trs0 = self.trades@;
                    let ghost tv0 = self.trade_vol as int;
                    let match_order = &mut self.orders.get_mut(id).unwrap();
                    let trade_vol = match_orders(
                        self.t,
                        &mut order_entry.order,
                        &mut match_order.order,
                        &mut self.trades,
                    );
                    self.trade_vol += trade_vol;
                    if match_order.order.status == Status::Filled {
                        self.ask_side.remove_order(match_order.key, trade_vol);
                    } else {
                        self.ask_side.remove_vol(match_order.key.1, trade_vol);
                    }
                    proof {
                        let os1 = self.orders@;
                        let e1 = os1[id as int];
                        assert(os1 =~= os0.update(id as int, e1));
                        lemma_step_wf(os0, side0, id as int, e1, self.ask_side, trade_vol);
                        // one unfolding of the reference matcher
                        assert(e1 == OrderEntry { order: fill(os0[id as int].order, trade_vol, self.t), key: os0[id as int].key });
                        lemma_update(os0, id as int, e1, 0);
                    }
                }
                None => {
                    break;
                }
            }
        }
        proof {
            lemma_best(self.orders@, self.ask_side);
        }
    }
}

proof fn lemma_step_wf(os0: Seq<OrderEntry>, s0: OrderBookSide, id: int, e1: OrderEntry, s1: OrderBookSide, tv: Vol)
    requires
        wf(os0, s0), 0 <= id < os0.len(), ra(os0[id]), 1 <= tv <= os0[id].order.vol,
        e1 == (OrderEntry { order: fill(os0[id].order, tv, e1.order.end_time), key: os0[id].key }) || e1 == (OrderEntry { order: Order { vol: (os0[id].order.vol - tv) as u32, ..os0[id].order }, key: os0[id].key }),
        e1.key == os0[id].key, e1.order.order_id == os0[id].order.order_id, e1.order.price == os0[id].order.price,
        (e1.order.status == Status::Filled && tv == os0[id].order.vol) || (e1.order.status == Status::Active && e1.order.vol == os0[id].order.vol - tv && tv < os0[id].order.vol),
        e1.order.status == Status::Filled ==> {
            &&& s1.om() == s0.om().remove((e1.key.1, e1.key.2))
            &&& s1.sv() == s0.sv() - tv
            &&& s1.lv() == (if s0.lv()[e1.key.1].1 == 1 { s0.lv().remove(e1.key.1) } else { s0.lv().insert(e1.key.1, ((s0.lv()[e1.key.1].0 - tv) as u32, (s0.lv()[e1.key.1].1 - 1) as u32)) })
        },
        e1.order.status != Status::Filled ==> {
            &&& s1.om() == s0.om()
            &&& s1.sv() == s0.sv() - tv
            &&& s1.lv() == s0.lv().insert(e1.key.1, ((s0.lv()[e1.key.1].0 - tv) as u32, s0.lv()[e1.key.1].1))
        },
    ensures wf(os0.update(id, e1), s1)
{
    let os1 = os0.update(id, e1);
    let p0 = e1.key.1;
    assert forall|p: u32| true implies
        #[trigger] lvl_vol(os1, p) == lvl_vol(os0, p) - cvol(os0[id], p) + cvol(e1, p)
        && #[trigger] lvl_cnt(os1, p) == lvl_cnt(os0, p) - ccnt(os0[id], p) + ccnt(e1, p) by { lemma_update(os0, id, e1, p); }
    lemma_update(os0, id, e1, p0);
    lemma_member(os0, id, p0);
    lemma_nonneg(os0, p0);
    assert(s0.lv().contains_key(p0));
    assert(s0.lv()[p0].1 == lvl_cnt(os0, p0) && s0.lv()[p0].0 == lvl_vol(os0, p0));
    assert forall|i: int| 0 <= i < os1.len() && ra(#[trigger] os1[i]) implies os1[i].order.vol >= 1 && os1[i].key.1 == os1[i].order.price
            && s1.om().contains_key((os1[i].key.1, os1[i].key.2)) && s1.om()[(os1[i].key.1, os1[i].key.2)] == i by {
        if i != id { assert(os1[i] == os0[i]); assert(ra(os0[i])); }
    }
    assert forall|k: (Price, Nanos)| #[trigger] s1.om().contains_key(k) implies 0 <= s1.om()[k] < os1.len() && ra(os1[s1.om()[k] as int]) && (os1[s1.om()[k] as int].key.1, os1[s1.om()[k] as int].key.2) == k by {
        assert(s0.om().contains_key(k));
    }
    assert forall|p: u32| #[trigger] s1.lv().contains_key(p) <==> lvl_cnt(os1, p) > 0 by {
        assert(s0.lv().contains_key(p) <==> lvl_cnt(os0, p) > 0);
        lemma_update(os0, id, e1, p);
        if p == p0 { } else { assert(ccnt(os0[id], p) == 0 && ccnt(e1, p) == 0); }
    }
    assert forall|p: u32| #[trigger] s1.lv().contains_key(p) implies s1.lv()[p].0 == lvl_vol(os1, p) && s1.lv()[p].1 == lvl_cnt(os1, p) by {
        lemma_update(os0, id, e1, p);
        assert(s0.lv().contains_key(p) ==> s0.lv()[p].0 == lvl_vol(os0, p));
    }
}

fn match_orders(t: Nanos, agg_order: &mut Order, pass_order: &mut Order, trades: &mut Vec<Trade>) -> (r: Vol)
    ensures
        r == (if old(agg_order).vol <= old(pass_order).vol { old(agg_order).vol } else { old(pass_order).vol }),
        *final(agg_order) == fill(*old(agg_order), r, t),
        *final(pass_order) == fill(*old(pass_order), r, t),
        final(trades)@ == old(trades)@.push(Trade { t, side: old(pass_order).side, price: old(pass_order).price, vol: r,
            active_order_id: old(agg_order).order_id, passive_order_id: old(pass_order).order_id }),
{
    broadcast use axiom_key_le_u32;
    let trade_vol = min(agg_order.vol, pass_order.vol);
    agg_order.vol -= trade_vol;
    pass_order.vol -= trade_vol;
    trades.push(Trade {
        t,
        side: pass_order.side,
        price: pass_order.price,
        vol: trade_vol,
        active_order_id: agg_order.order_id,
        passive_order_id: pass_order.order_id,
    });
    if pass_order.vol == 0 {
        pass_order.end_time = t;
        pass_order.status = Status::Filled;
    };
    if agg_order.vol == 0 {
        agg_order.end_time = t;
        agg_order.status = Status::Filled;
    };

    trade_vol
}

}
fn main(){}
