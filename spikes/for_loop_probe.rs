use vstd::prelude::*;
verus! {
pub enum Ev { A{ id: usize }, B{ id: usize } }

pub assume_specification<T: Default> [core::mem::take::<T>] (x: &mut T) -> (r: T)
    ensures r == *old(x), 
;

fn proc(e: Ev, log: &mut Vec<usize>)
    ensures final(log)@ == old(log)@.push(match e { Ev::A{id} => id, Ev::B{id} => id })
{
    match e { Ev::A{id} => log.push(id), Ev::B{id} => log.push(id) }
}

fn step(q: &mut Vec<Ev>, log: &mut Vec<usize>)
{
    let transactions = core::mem::take(q);
    let mut i: usize = 0;
    for t in it: transactions
        invariant i == it.index@, i <= transactions@.len(), log@.len() == old(log)@.len() + i, 
    {
        proc(t, log);
        i = i + 1;
    }
}
}
fn main(){}
