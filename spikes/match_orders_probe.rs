#![feature(allocator_api)]
use vstd::prelude::*;
use std::cmp::min;
verus! {

pub uninterp spec fn key_le<K>(a: K, b: K) -> bool;
pub broadcast axiom fn axiom_key_le_u32(a: u32, b: u32)
    ensures #[trigger] key_le(a, b) == (a <= b);
pub assume_specification<T: Ord> [core::cmp::min] (a: T, b: T) -> (r: T)
    ensures (key_le(a, b) ==> r == a) && (!key_le(a, b) ==> r == b),
;

pub type OrderId = usize;
pub type Nanos = u64;
pub type Price = u32;
pub type Vol = u32;
pub type TraderId = u32;
#[derive(Clone, Copy, Debug)]
pub enum Side { Bid, Ask }
pub type OrderKey = (Side, u32, u64);
#[derive(Clone, PartialEq, Eq, Copy, Debug)]
pub enum Status { New, Active, Filled, Cancelled, Rejected }

#[derive(Clone, Copy)]
pub struct Order {
    pub side: Side,
    pub status: Status,
    pub arr_time: Nanos,
    pub end_time: Nanos,
    pub vol: Vol,
    pub start_vol: Vol,
    pub price: Price,
    pub trader_id: TraderId,
    pub order_id: OrderId,
}
pub struct Trade {
    pub t: Nanos,
    pub side: Side,
    pub price: Price,
    pub vol: Vol,
    pub active_order_id: OrderId,
    pub passive_order_id: OrderId,
}
#[derive(Copy, Clone)]
pub struct OrderEntry {
    order: Order,
    key: OrderKey,
}

pub struct Book {
    t: Nanos,
    trade_vol: Vol,
    orders: Vec<OrderEntry>,
    trades: Vec<Trade>,
}

spec fn fill(o: Order, v: Vol, t: Nanos) -> Order {
    if o.vol == v { Order { vol: 0, end_time: t, status: Status::Filled, ..o } } else { Order { vol: (o.vol - v) as u32, ..o } }
}

fn match_orders(
    t: Nanos,
    agg_order: &mut Order,
    pass_order: &mut Order,
    trades: &mut Vec<Trade>,
) -> (r: Vol)
    ensures
        r == (if old(agg_order).vol <= old(pass_order).vol { old(agg_order).vol } else { old(pass_order).vol }),
        *final(agg_order) == fill(*old(agg_order), r, t),
        *final(pass_order) == fill(*old(pass_order), r, t),
        final(trades)@ == old(trades)@.push(Trade { t, side: old(pass_order).side, price: old(pass_order).price, vol: r,
            active_order_id: old(agg_order).order_id, passive_order_id: old(pass_order).order_id }),
{
    broadcast use axiom_key_le_u32;
    let trade_vol = min(agg_order.vol, pass_order.vol);
    agg_order.vol -= trade_vol;
    pass_order.vol -= trade_vol;
    trades.push(Trade {
        t,
        side: pass_order.side,
        price: pass_order.price,
        vol: trade_vol,
        active_order_id: agg_order.order_id,
        passive_order_id: pass_order.order_id,
    });
    if pass_order.vol == 0 {
        pass_order.end_time = t;
        pass_order.status = Status::Filled;
    };
    if agg_order.vol == 0 {
        agg_order.end_time = t;
        agg_order.status = Status::Filled;
    };

    trade_vol
}

impl Book {
    fn one(&mut self, order_entry: &mut OrderEntry, id: usize)
        requires id < old(self).orders@.len(), old(self).trade_vol as int + old(order_entry).order.vol <= u32::MAX,
        ensures
            final(self).orders@.len() == old(self).orders@.len(),
            forall|j: int| 0 <= j < old(self).orders@.len() && j != id ==> final(self).orders@[j] == old(self).orders@[j],
            final(self).orders@[id as int].order == fill(old(self).orders@[id as int].order,
                 (if old(order_entry).order.vol <= old(self).orders@[id as int].order.vol { old(order_entry).order.vol } else { old(self).orders@[id as int].order.vol }), old(self).t),
    {
        let match_order = &mut self.orders.get_mut(id).unwrap();
        let trade_vol = match_orders(
            self.t,
            &mut order_entry.order,
            &mut match_order.order,
            &mut self.trades,
        );
        self.trade_vol += trade_vol;
    }
}
}
fn main(){}
