#![feature(allocator_api)]
use vstd::prelude::*;
use std::collections::BTreeMap;
use std::cmp::min;
verus! {

pub uninterp spec fn key_le<K>(a: K, b: K) -> bool;
pub broadcast axiom fn axiom_key_le_u32(a: u32, b: u32)
    ensures #[trigger] key_le(a, b) == (a <= b);
pub broadcast axiom fn axiom_key_le_pair(a: (u32, u64), b: (u32, u64))
    ensures #[trigger] key_le(a, b) == (a.0 < b.0 || (a.0 == b.0 && a.1 <= b.1));
pub open spec fn is_min_key<K, V>(m: Map<K, V>, k: K) -> bool {
    m.contains_key(k) && forall|k2: K| #[trigger] m.contains_key(k2) ==> key_le(k, k2)
}
pub assume_specification<K: Ord, V, A: std::alloc::Allocator + Clone> [BTreeMap::<K, V, A>::first_key_value] (m: &BTreeMap<K, V, A>) -> (r: Option<(&K, &V)>)
    ensures
        r is None <==> m@.dom() =~= Set::<K>::empty(),
        r matches Some(kv) ==> is_min_key(m@, *kv.0) && m@[*kv.0] == *kv.1,
;
pub assume_specification<T: Ord> [core::cmp::min] (a: T, b: T) -> (r: T)
    ensures (key_le(a, b) ==> r == a) && (!key_le(a, b) ==> r == b),
;

pub assume_specification<T, const N: usize, F: FnMut(usize) -> T> [core::array::from_fn] (f: F) -> (r: [T; N])
    requires forall|i: usize| i < N ==> call_requires(f, (i,)),
    ensures forall|i: usize| i < N ==> call_ensures(f, (i,), #[trigger] r@[i as int]),
;
pub type OrderId = usize;
pub type Nanos = u64;
pub type Price = u32;
pub type Vol = u32;
pub type TraderId = u32;
pub type OrderCount = u32;
#[derive(Clone, Copy, Debug)]
pub enum Side { Bid, Ask }
pub type OrderKey = (Side, u32, u64);
#[derive(Clone, PartialEq, Eq, Copy, Debug, Structural)]
pub enum Status { New, Active, Filled, Cancelled, Rejected }

#[derive(Clone, Copy)]
pub struct Order {
    pub side: Side, pub status: Status, pub arr_time: Nanos, pub end_time: Nanos, pub vol: Vol, pub start_vol: Vol,
    pub price: Price, pub trader_id: TraderId, pub order_id: OrderId,
}
pub struct Trade { pub t: Nanos, pub side: Side, pub price: Price, pub vol: Vol, pub active_order_id: OrderId, pub passive_order_id: OrderId }
#[derive(Copy, Clone)]
pub struct OrderEntry { order: Order, key: OrderKey }

// ---------------- side (real code, structural contracts) ----------------
pub struct OrderBookSide {
    vol: Vol,
    volumes: BTreeMap<Price, (Vol, OrderCount)>,
    orders: BTreeMap<(Price, Nanos), OrderId>,
}
impl OrderBookSide {
    spec fn sv(&self) -> int { self.vol as int }
    spec fn lv(&self) -> Map<Price, (Vol, OrderCount)> { self.volumes@ }
    spec fn om(&self) -> Map<(Price, Nanos), OrderId> { self.orders@ }

    fn insert_order(&mut self, key: OrderKey, idx: OrderId, vol: Vol)
        requires
            old(self).sv() + vol <= u32::MAX,
            old(self).lv().contains_key(key.1) ==> old(self).lv()[key.1].0 + vol <= u32::MAX && old(self).lv()[key.1].1 < u32::MAX,
        ensures
            final(self).om() == old(self).om().insert((key.1, key.2), idx),
            final(self).sv() == old(self).sv() + vol,
            final(self).lv() == old(self).lv().insert(key.1,
                if old(self).lv().contains_key(key.1) { ((old(self).lv()[key.1].0 + vol) as u32, (old(self).lv()[key.1].1 + 1) as u32) } else { (vol, 1u32) }),
    {
        self.orders.insert((key.1, key.2), idx);
        match self.volumes.get_mut(&key.1) {
            Some(v) => {
                v.0 += vol;
                v.1 += 1;
            }
            None => {
                self.volumes.insert(key.1, (vol, 1));
            }
        };
        self.vol += vol;
    }
    fn remove_order(&mut self, key: OrderKey, vol: Vol)
        requires
            old(self).lv().contains_key(key.1),
            old(self).lv()[key.1].0 >= vol, old(self).lv()[key.1].1 >= 1,
            old(self).sv() >= vol,
        ensures
            final(self).om() == old(self).om().remove((key.1, key.2)),
            final(self).sv() == old(self).sv() - vol,
            final(self).lv() == (if old(self).lv()[key.1].1 == 1 { old(self).lv().remove(key.1) } else {
                old(self).lv().insert(key.1, ((old(self).lv()[key.1].0 - vol) as u32, (old(self).lv()[key.1].1 - 1) as u32)) }),
    {
        self.orders.remove(&(key.1, key.2));
        let vol_at_price = self.volumes.get_mut(&key.1).unwrap();
        vol_at_price.0 -= vol;
        vol_at_price.1 -= 1;
        if vol_at_price.1 == 0 {
            self.volumes.remove(&key.1);
        }
        self.vol -= vol;
    }
    fn remove_vol(&mut self, price: Price, vol: Vol)
        requires
            old(self).lv().contains_key(price),
            old(self).lv()[price].0 >= vol,
            old(self).sv() >= vol,
        ensures
            final(self).om() == old(self).om(),
            final(self).sv() == old(self).sv() - vol,
            final(self).lv() == old(self).lv().insert(price, ((old(self).lv()[price].0 - vol) as u32, old(self).lv()[price].1)),
    {
        self.volumes.get_mut(&price).unwrap().0 -= vol;
        self.vol -= vol;
    }
    fn best_vol_and_orders(&self) -> (r: (Vol, OrderCount))
        ensures r == (if self.lv().dom() =~= Set::empty() { (0u32, 0u32) } else { self.lv()[min_p(self.lv())] }),
    {
        proof { lemma_min_p_unique(self.lv()); }
        match self.volumes.first_key_value() {
            Some((_, v)) => *v,
            None => (0, 0),
        }
    }
    fn best_vol(&self) -> (r: Vol)
        ensures r == (if self.lv().dom() =~= Set::empty() { 0u32 } else { self.lv()[min_p(self.lv())].0 }),
    {
        proof { lemma_min_p_unique(self.lv()); }
        match self.volumes.first_key_value() {
            Some((_, v)) => v.0,
            None => 0,
        }
    }
    fn vol(&self) -> (r: Vol) ensures r == self.sv()
    {
        self.vol
    }
    fn vol_and_orders_at_price(&self, price: Price) -> (r: (Vol, OrderCount))
        ensures r == (if self.lv().contains_key(price) { self.lv()[price] } else { (0u32, 0u32) })
    {
        match self.volumes.get(&price) {
            Some(x) => *x,
            None => (0, 0),
        }
    }
    fn best_price(&self) -> (r: Price)
        ensures r == (if self.om().dom() =~= Set::empty() { u32::MAX } else { min_k(self.om()).0 }),
    {
        proof { lemma_min_unique(self.om()); }
        match self.orders.first_key_value() {
            Some((k, _)) => { k.0 },
            None => Price::MAX,
        }
    }
    fn best_order_idx(&self) -> (r: Option<OrderId>)
        ensures r == (if self.om().dom() =~= Set::empty() { None } else { Some(self.om()[min_k(self.om())]) }),
    {
        proof { lemma_min_unique(self.om()); }
        self.orders.first_key_value().map(|kv: (&(Price, Nanos), &OrderId)| -> (o: OrderId) ensures o == *kv.1 { let (_, v) = kv; *v })
    }
}
spec fn min_p(m: Map<Price, (Vol, OrderCount)>) -> Price { choose|k: Price| is_min_key(m, k) }
proof fn lemma_min_p_unique(m: Map<Price, (Vol, OrderCount)>)
    ensures forall|a: Price| is_min_key(m, a) ==> min_p(m) == a,
{
    broadcast use axiom_key_le_u32;
    assert forall|a: Price, b: Price| is_min_key(m, a) && is_min_key(m, b) implies a == b by { assert(key_le(a, b) && key_le(b, a)); }
}
spec fn min_k(m: Map<(Price, Nanos), OrderId>) -> (Price, Nanos) { choose|k: (Price, Nanos)| is_min_key(m, k) }
proof fn lemma_min_unique(m: Map<(Price, Nanos), OrderId>)
    ensures forall|a: (Price, Nanos), b: (Price, Nanos)| is_min_key(m, a) && is_min_key(m, b) ==> a == b,
            forall|a: (Price, Nanos)| is_min_key(m, a) ==> min_k(m) == a,
{
    broadcast use axiom_key_le_pair;
    assert forall|a: (Price, Nanos), b: (Price, Nanos)| is_min_key(m, a) && is_min_key(m, b) implies a == b by {
        assert(key_le(a, b) && key_le(b, a));
    }
}



impl Order {
    pub fn buy_limit(t: Nanos, vol: Vol, price: Price, trader_id: TraderId, order_id: OrderId) -> (o: Order)
        ensures o == (Order { side: Side::Bid, status: Status::New, arr_time: t, end_time: u64::MAX, vol, start_vol: vol, price, trader_id, order_id })
    {
        Order {
            side: Side::Bid,
            status: Status::New,
            arr_time: t,
            end_time: Nanos::MAX,
            vol,
            start_vol: vol,
            price,
            trader_id,
            order_id,
        }
    }
    pub fn buy_market(t: Nanos, vol: Vol, trader_id: TraderId, order_id: OrderId) -> (o: Order)
        ensures o == (Order { side: Side::Bid, status: Status::New, arr_time: t, end_time: u64::MAX, vol, start_vol: vol, price: u32::MAX, trader_id, order_id })
    {
        Order {
            side: Side::Bid,
            status: Status::New,
            arr_time: t,
            end_time: Nanos::MAX,
            vol,
            start_vol: vol,
            price: Price::MAX,
            trader_id,
            order_id,
        }
    }
    pub fn sell_limit(t: Nanos, vol: Vol, price: Price, trader_id: TraderId, order_id: OrderId) -> (o: Order)
        ensures o == (Order { side: Side::Ask, status: Status::New, arr_time: t, end_time: u64::MAX, vol, start_vol: vol, price, trader_id, order_id })
    {
        Order {
            side: Side::Ask,
            status: Status::New,
            arr_time: t,
            end_time: Nanos::MAX,
            vol,
            start_vol: vol,
            price,
            trader_id,
            order_id,
        }
    }
    pub fn sell_market(t: Nanos, vol: Vol, trader_id: TraderId, order_id: OrderId) -> (o: Order)
        ensures o == (Order { side: Side::Ask, status: Status::New, arr_time: t, end_time: u64::MAX, vol, start_vol: vol, price: 0, trader_id, order_id })
    {
        Order {
            side: Side::Ask,
            status: Status::New,
            arr_time: t,
            end_time: Nanos::MAX,
            vol,
            start_vol: vol,
            price: 0,
            trader_id,
            order_id,
        }
    }
}
pub fn get_bid_key(t: Nanos, price: Price) -> (k: OrderKey) ensures k == (Side::Bid, (u32::MAX - price) as u32, t) {
    (Side::Bid, Price::MAX - price, t)
}
pub fn get_ask_key(t: Nanos, price: Price) -> (k: OrderKey) ensures k == (Side::Ask, price, t) {
    (Side::Ask, price, t)
}
pub enum OrderError {
    PriceError { price: Price, tick_size: Price },
}
// ---------------- Bid / Ask wrappers (real code, forwarding contracts) ----------------
pub struct BidSide(OrderBookSide);
pub struct AskSide(OrderBookSide);
impl Default for OrderBookSide {
    fn default() -> (r: Self) ensures r.is_empty()
    { OrderBookSide { vol: Default::default(), volumes: Default::default(), orders: Default::default() } }
}
impl Default for BidSide { fn default() -> (r: Self) ensures r.is_empty() { BidSide(Default::default()) } }
impl Default for AskSide { fn default() -> (r: Self) ensures r.is_empty() { AskSide(Default::default()) } }
impl OrderBookSide { pub closed spec fn is_empty(&self) -> bool { self.vol == 0 && self.volumes@ == Map::<Price, (Vol, OrderCount)>::empty() && self.orders@ == Map::<(Price, Nanos), OrderId>::empty() } }
impl BidSide { pub closed spec fn is_empty(&self) -> bool { self.0.is_empty() } }
impl AskSide { pub closed spec fn is_empty(&self) -> bool { self.0.is_empty() } }


impl BidSide {
    fn remove_vol(&mut self, price: Price, vol: Vol)
        requires
            old(self).0.lv().contains_key(price),
            old(self).0.lv()[price].0 >= vol,
            old(self).0.sv() >= vol,
        ensures
            final(self).0.om() == old(self).0.om(),
            final(self).0.sv() == old(self).0.sv() - vol,
            final(self).0.lv() == old(self).0.lv().insert(price, ((old(self).0.lv()[price].0 - vol) as u32, old(self).0.lv()[price].1)),
    {
        self.0.remove_vol(price, vol)
    }
    fn best_order_idx(&self) -> (r: Option<OrderId>)
        ensures r == (if self.0.om().dom() =~= Set::empty() { None } else { Some(self.0.om()[min_k(self.0.om())]) }),
    {
        self.0.best_order_idx()
    }
    fn insert_order(&mut self, key: OrderKey, idx: OrderId, vol: Vol)
        requires
            old(self).0.sv() + vol <= u32::MAX,
            old(self).0.lv().contains_key(key.1) ==> old(self).0.lv()[key.1].0 + vol <= u32::MAX && old(self).0.lv()[key.1].1 < u32::MAX,
        ensures
            final(self).0.om() == old(self).0.om().insert((key.1, key.2), idx),
            final(self).0.sv() == old(self).0.sv() + vol,
            final(self).0.lv() == old(self).0.lv().insert(key.1,
                if old(self).0.lv().contains_key(key.1) { ((old(self).0.lv()[key.1].0 + vol) as u32, (old(self).0.lv()[key.1].1 + 1) as u32) } else { (vol, 1u32) }),
    {
        self.0.insert_order(key, idx, vol)
    }
    fn remove_order(&mut self, key: OrderKey, vol: Vol)
        requires
            old(self).0.lv().contains_key(key.1),
            old(self).0.lv()[key.1].0 >= vol, old(self).0.lv()[key.1].1 >= 1,
            old(self).0.sv() >= vol,
        ensures
            final(self).0.om() == old(self).0.om().remove((key.1, key.2)),
            final(self).0.sv() == old(self).0.sv() - vol,
            final(self).0.lv() == (if old(self).0.lv()[key.1].1 == 1 { old(self).0.lv().remove(key.1) } else {
                old(self).0.lv().insert(key.1, ((old(self).0.lv()[key.1].0 - vol) as u32, (old(self).0.lv()[key.1].1 - 1) as u32)) }),
    {
        self.0.remove_order(key, vol)
    }
    fn best_price(&self) -> (r: Price)
        ensures r == (if self.0.om().dom() =~= Set::empty() { 0u32 } else { (u32::MAX - min_k(self.0.om()).0) as u32 }),
    {
        Price::MAX - self.0.best_price()
    }
}
impl AskSide {
    fn vol_and_orders_at_price(&self, price: Price) -> (r: (Vol, OrderCount))
        ensures r == (if self.0.lv().contains_key(price) { self.0.lv()[price] } else { (0u32, 0u32) })
    {
        self.0.vol_and_orders_at_price(price)
    }
    fn best_vol_and_orders(&self) -> (r: (Vol, OrderCount))
        ensures r == (if self.0.lv().dom() =~= Set::empty() { (0u32, 0u32) } else { self.0.lv()[min_p(self.0.lv())] }),
    {
        self.0.best_vol_and_orders()
    }
    fn vol(&self) -> (r: Vol) ensures r == self.0.sv()
    {
        self.0.vol()
    }
    fn insert_order(&mut self, key: OrderKey, idx: OrderId, vol: Vol)
        requires
            old(self).0.sv() + vol <= u32::MAX,
            old(self).0.lv().contains_key(key.1) ==> old(self).0.lv()[key.1].0 + vol <= u32::MAX && old(self).0.lv()[key.1].1 < u32::MAX,
        ensures
            final(self).0.om() == old(self).0.om().insert((key.1, key.2), idx),
            final(self).0.sv() == old(self).0.sv() + vol,
            final(self).0.lv() == old(self).0.lv().insert(key.1,
                if old(self).0.lv().contains_key(key.1) { ((old(self).0.lv()[key.1].0 + vol) as u32, (old(self).0.lv()[key.1].1 + 1) as u32) } else { (vol, 1u32) }),
    {
        self.0.insert_order(key, idx, vol)
    }
    fn remove_order(&mut self, key: OrderKey, vol: Vol)
        requires
            old(self).0.lv().contains_key(key.1),
            old(self).0.lv()[key.1].0 >= vol, old(self).0.lv()[key.1].1 >= 1,
            old(self).0.sv() >= vol,
        ensures
            final(self).0.om() == old(self).0.om().remove((key.1, key.2)),
            final(self).0.sv() == old(self).0.sv() - vol,
            final(self).0.lv() == (if old(self).0.lv()[key.1].1 == 1 { old(self).0.lv().remove(key.1) } else {
                old(self).0.lv().insert(key.1, ((old(self).0.lv()[key.1].0 - vol) as u32, (old(self).0.lv()[key.1].1 - 1) as u32)) }),
    {
        self.0.remove_order(key, vol)
    }
    fn remove_vol(&mut self, price: Price, vol: Vol)
        requires
            old(self).0.lv().contains_key(price),
            old(self).0.lv()[price].0 >= vol,
            old(self).0.sv() >= vol,
        ensures
            final(self).0.om() == old(self).0.om(),
            final(self).0.sv() == old(self).0.sv() - vol,
            final(self).0.lv() == old(self).0.lv().insert(price, ((old(self).0.lv()[price].0 - vol) as u32, old(self).0.lv()[price].1)),
    {
        self.0.remove_vol(price, vol)
    }
    fn best_price(&self) -> (r: Price)
        ensures r == (if self.0.om().dom() =~= Set::empty() { u32::MAX } else { min_k(self.0.om()).0 }),
    {
        self.0.best_price()
    }
    fn best_order_idx(&self) -> (r: Option<OrderId>)
        ensures r == (if self.0.om().dom() =~= Set::empty() { None } else { Some(self.0.om()[min_k(self.0.om())]) }),
    {
        self.0.best_order_idx()
    }
}

// ---------------- book ----------------
pub struct Book {
    t: Nanos,
    tick_size: Price,
    trade_vol: Vol,
    ask_side: AskSide,
    bid_side: BidSide,
    orders: Vec<OrderEntry>,
    trades: Vec<Trade>,
    trading: bool,
}

spec fn fill(o: Order, v: Vol, t: Nanos) -> Order {
    if o.vol == v { Order { vol: 0, end_time: t, status: Status::Filled, ..o } } else { Order { vol: (o.vol - v) as u32, ..o } }
}
// resting on side sd, ignoring index x (x = -1: nobody ignored)
spec fn rs(os: Seq<OrderEntry>, i: int, sd: Side, x: int) -> bool { i != x && os[i].order.status == Status::Active && os[i].key.0 == sd }
spec fn kle(a: OrderEntry, b: OrderEntry) -> bool { a.key.1 < b.key.1 || (a.key.1 == b.key.1 && a.key.2 <= b.key.2) }
spec fn is_best(os: Seq<OrderEntry>, sd: Side, x: int, i: int) -> bool {
    0 <= i < os.len() && rs(os, i, sd, x) && forall|j: int| 0 <= j < os.len() && rs(os, j, sd, x) ==> kle(os[i], os[j])
}
spec fn has_resting(os: Seq<OrderEntry>, sd: Side, x: int) -> bool { exists|i: int| 0 <= i < os.len() && rs(os, i, sd, x) }
spec fn best(os: Seq<OrderEntry>, sd: Side, x: int) -> int { choose|i: int| is_best(os, sd, x, i) }

spec fn cvol(os: Seq<OrderEntry>, i: int, sd: Side, x: int, p: u32) -> int { if rs(os, i, sd, x) && os[i].key.1 == p { os[i].order.vol as int } else { 0 } }
spec fn ccnt(os: Seq<OrderEntry>, i: int, sd: Side, x: int, p: u32) -> nat { if rs(os, i, sd, x) && os[i].key.1 == p { 1 } else { 0 } }
spec fn tvol(os: Seq<OrderEntry>, i: int, sd: Side, x: int) -> int { if rs(os, i, sd, x) { os[i].order.vol as int } else { 0 } }
spec fn tcnt(os: Seq<OrderEntry>, i: int, sd: Side, x: int) -> nat { if rs(os, i, sd, x) { 1 } else { 0 } }
spec fn lvl_vol(os: Seq<OrderEntry>, n: int, sd: Side, x: int, p: u32) -> int decreases n { if n <= 0 { 0 } else { lvl_vol(os, n - 1, sd, x, p) + cvol(os, n - 1, sd, x, p) } }
spec fn lvl_cnt(os: Seq<OrderEntry>, n: int, sd: Side, x: int, p: u32) -> nat decreases n { if n <= 0 { 0 } else { lvl_cnt(os, n - 1, sd, x, p) + ccnt(os, n - 1, sd, x, p) } }
spec fn tot_vol(os: Seq<OrderEntry>, n: int, sd: Side, x: int) -> int decreases n { if n <= 0 { 0 } else { tot_vol(os, n - 1, sd, x) + tvol(os, n - 1, sd, x) } }
spec fn tot_cnt(os: Seq<OrderEntry>, n: int, sd: Side, x: int) -> nat decreases n { if n <= 0 { 0 } else { tot_cnt(os, n - 1, sd, x) + tcnt(os, n - 1, sd, x) } }

// changing entry i (and/or the excluded index) changes each sum by the difference of the contributions at i only
proof fn lemma_delta(os0: Seq<OrderEntry>, x0: int, os1: Seq<OrderEntry>, x1: int, n: int, sd: Side, p: u32, a: int, b: int)
    requires
        os0.len() == os1.len(), 0 <= n <= os0.len(),
        forall|j: int| 0 <= j < os0.len() && j != a && j != b ==> os0[j] == os1[j] && ((j != x0) == (j != x1)),
    ensures
        lvl_vol(os1, n, sd, x1, p) - lvl_vol(os0, n, sd, x0, p)
            == (if 0 <= a < n { cvol(os1, a, sd, x1, p) - cvol(os0, a, sd, x0, p) } else { 0 }) + (if 0 <= b < n && b != a { cvol(os1, b, sd, x1, p) - cvol(os0, b, sd, x0, p) } else { 0 }),
        lvl_cnt(os1, n, sd, x1, p) - lvl_cnt(os0, n, sd, x0, p)
            == (if 0 <= a < n { ccnt(os1, a, sd, x1, p) - ccnt(os0, a, sd, x0, p) } else { 0 }) + (if 0 <= b < n && b != a { ccnt(os1, b, sd, x1, p) - ccnt(os0, b, sd, x0, p) } else { 0 }),
        tot_vol(os1, n, sd, x1) - tot_vol(os0, n, sd, x0)
            == (if 0 <= a < n { tvol(os1, a, sd, x1) - tvol(os0, a, sd, x0) } else { 0 }) + (if 0 <= b < n && b != a { tvol(os1, b, sd, x1) - tvol(os0, b, sd, x0) } else { 0 }),
        tot_cnt(os1, n, sd, x1) - tot_cnt(os0, n, sd, x0)
            == (if 0 <= a < n { tcnt(os1, a, sd, x1) - tcnt(os0, a, sd, x0) } else { 0 }) + (if 0 <= b < n && b != a { tcnt(os1, b, sd, x1) - tcnt(os0, b, sd, x0) } else { 0 }),
    decreases n
{
    if n > 0 { lemma_delta(os0, x0, os1, x1, n - 1, sd, p, a, b); }
}
proof fn lemma_nonneg(os: Seq<OrderEntry>, n: int, sd: Side, x: int, p: u32)
    ensures lvl_vol(os, n, sd, x, p) >= 0, tot_vol(os, n, sd, x) >= 0, lvl_vol(os, n, sd, x, p) <= tot_vol(os, n, sd, x), lvl_cnt(os, n, sd, x, p) <= tot_cnt(os, n, sd, x),
    decreases n
{ if n > 0 { lemma_nonneg(os, n - 1, sd, x, p); } }
proof fn lemma_member(os: Seq<OrderEntry>, n: int, sd: Side, x: int, i: int)
    requires 0 <= i < n <= os.len(), rs(os, i, sd, x)
    ensures lvl_vol(os, n, sd, x, os[i].key.1) >= os[i].order.vol, lvl_cnt(os, n, sd, x, os[i].key.1) >= 1, tot_vol(os, n, sd, x) >= os[i].order.vol, tot_cnt(os, n, sd, x) >= 1
    decreases n
{
    lemma_nonneg(os, n - 1, sd, x, os[i].key.1);
    if i < n - 1 { lemma_member(os, n - 1, sd, x, i); }
}
proof fn lemma_cnt_pos(os: Seq<OrderEntry>, n: int, sd: Side, x: int, p: u32)
    requires lvl_cnt(os, n, sd, x, p) > 0, n <= os.len()
    ensures exists|i: int| 0 <= i < n && rs(os, i, sd, x) && os[i].key.1 == p
    decreases n
{
    if n > 0 {
        if ccnt(os, n - 1, sd, x, p) == 1 { assert(rs(os, n - 1, sd, x) && os[n - 1].key.1 == p); }
        else { lemma_cnt_pos(os, n - 1, sd, x, p); }
    }
}

// W1..W5 for one side, ignoring index x
spec fn side_wf(os: Seq<OrderEntry>, s: OrderBookSide, sd: Side, x: int) -> bool {
    let n = os.len() as int;
    &&& forall|i: int| 0 <= i < n && rs(os, i, sd, x) ==> (#[trigger] os[i]).order.vol >= 1
            && s.om().contains_key((os[i].key.1, os[i].key.2)) && s.om()[(os[i].key.1, os[i].key.2)] == i
    &&& forall|k: (Price, Nanos)| #[trigger] s.om().contains_key(k) ==> 0 <= s.om()[k] < n && rs(os, s.om()[k] as int, sd, x) && (os[s.om()[k] as int].key.1, os[s.om()[k] as int].key.2) == k
    &&& forall|p: u32| #[trigger] s.lv().contains_key(p) <==> lvl_cnt(os, n, sd, x, p) > 0
    &&& forall|p: u32| #[trigger] s.lv().contains_key(p) ==> s.lv()[p].0 == lvl_vol(os, n, sd, x, p) && s.lv()[p].1 == lvl_cnt(os, n, sd, x, p)
    &&& s.sv() == tot_vol(os, n, sd, x)
}
spec fn ids_wf(os: Seq<OrderEntry>) -> bool {
    forall|i: int| 0 <= i < os.len() ==> (#[trigger] os[i]).order.order_id == i && os[i].key.0 == os[i].order.side
        && ((os[i].order.status == Status::Active || os[i].order.status == Status::New) ==> os[i].key.1 == (match os[i].order.side { Side::Ask => os[i].order.price, Side::Bid => (u32::MAX - os[i].order.price) as u32 }))
}

proof fn lemma_min_prefix(os: Seq<OrderEntry>, sd: Side, x: int, n: int, i0: int) -> (m: int)
    requires 0 <= i0 < n <= os.len(), rs(os, i0, sd, x)
    ensures 0 <= m < n, rs(os, m, sd, x), forall|j: int| 0 <= j < n && rs(os, j, sd, x) ==> kle(os[m], os[j])
    decreases n
{
    if n - 1 == i0 {
        if exists|i: int| 0 <= i < n - 1 && rs(os, i, sd, x) {
            let i1 = choose|i: int| 0 <= i < n - 1 && rs(os, i, sd, x);
            let m1 = lemma_min_prefix(os, sd, x, n - 1, i1);
            if kle(os[m1], os[n - 1]) { m1 } else { n - 1 }
        } else { n - 1 }
    } else {
        let m1 = lemma_min_prefix(os, sd, x, n - 1, i0);
        if rs(os, n - 1, sd, x) && !kle(os[m1], os[n - 1]) { n - 1 } else { m1 }
    }
}
proof fn lemma_best(os: Seq<OrderEntry>, s: OrderBookSide, sd: Side, x: int)
    requires side_wf(os, s, sd, x)
    ensures
        s.om().dom() =~= Set::empty() ==> !has_resting(os, sd, x),
        !(s.om().dom() =~= Set::empty()) ==> {
            let k = min_k(s.om()); let b = s.om()[k] as int;
            is_min_key(s.om(), k) && has_resting(os, sd, x) && best(os, sd, x) == b && is_best(os, sd, x, b) && os[b].order.vol >= 1
            && os[b].key.1 == k.0 && os[b].key.2 == k.1 && 0 <= b < os.len() && b != x
        },
{
    broadcast use axiom_key_le_pair;
    if s.om().dom() =~= Set::empty() {
        if has_resting(os, sd, x) {
            let i = choose|i: int| 0 <= i < os.len() && rs(os, i, sd, x);
            assert(s.om().contains_key((os[i].key.1, os[i].key.2)));
            assert(s.om().dom().contains((os[i].key.1, os[i].key.2)));
        }
    } else {
        let k0 = choose|k: (Price, Nanos)| s.om().dom().contains(k);
        assert(s.om().contains_key(k0));
        let i0 = s.om()[k0] as int;
        let m = lemma_min_prefix(os, sd, x, os.len() as int, i0);
        let km = (os[m].key.1, os[m].key.2);
        assert(s.om().contains_key(km));
        assert forall|k2: (Price, Nanos)| s.om().contains_key(k2) implies key_le(km, k2) by {
            let j = s.om()[k2] as int;
            assert(kle(os[m], os[j]));
        }
        assert(is_min_key(s.om(), km));
        lemma_min_unique(s.om());
        let k = min_k(s.om());
        let b = s.om()[k] as int;
        assert(k == km && b == m);
        assert(is_best(os, sd, x, b));
        let bb = best(os, sd, x);
        assert(is_best(os, sd, x, bb));
        assert(kle(os[b], os[bb]) && kle(os[bb], os[b]));
        assert(s.om()[(os[bb].key.1, os[bb].key.2)] == bb);
    }
}

// one passive fill step keeps the side invariant (side sd, passive index id, excluded index x)
proof fn lemma_step_wf(os0: Seq<OrderEntry>, s0: OrderBookSide, sd: Side, x: int, id: int, e1: OrderEntry, s1: OrderBookSide, tv: Vol)
    requires
        side_wf(os0, s0, sd, x), 0 <= id < os0.len(), rs(os0, id, sd, x), 1 <= tv <= os0[id].order.vol,
        e1.key == os0[id].key,
        (e1.order.status != Status::Active && tv == os0[id].order.vol) || (e1.order.status == Status::Active && e1.order.vol == os0[id].order.vol - tv && tv < os0[id].order.vol),
        e1.order.status != Status::Active ==> {
            &&& s1.om() == s0.om().remove((e1.key.1, e1.key.2))
            &&& s1.sv() == s0.sv() - tv
            &&& s1.lv() == (if s0.lv()[e1.key.1].1 == 1 { s0.lv().remove(e1.key.1) } else { s0.lv().insert(e1.key.1, ((s0.lv()[e1.key.1].0 - tv) as u32, (s0.lv()[e1.key.1].1 - 1) as u32)) })
        },
        e1.order.status == Status::Active ==> {
            &&& s1.om() == s0.om()
            &&& s1.sv() == s0.sv() - tv
            &&& s1.lv() == s0.lv().insert(e1.key.1, ((s0.lv()[e1.key.1].0 - tv) as u32, s0.lv()[e1.key.1].1))
        },
    ensures side_wf(os0.update(id, e1), s1, sd, x)
{
    let os1 = os0.update(id, e1);
    let n = os0.len() as int;
    let p0 = e1.key.1;
    lemma_delta(os0, x, os1, x, n, sd, p0, id, id);
    lemma_member(os0, n, sd, x, id);
    lemma_nonneg(os0, n, sd, x, p0);
    assert(s0.lv().contains_key(p0));
    assert(s0.lv()[p0].1 == lvl_cnt(os0, n, sd, x, p0) && s0.lv()[p0].0 == lvl_vol(os0, n, sd, x, p0));
    assert forall|i: int| 0 <= i < n && rs(os1, i, sd, x) implies (#[trigger] os1[i]).order.vol >= 1
            && s1.om().contains_key((os1[i].key.1, os1[i].key.2)) && s1.om()[(os1[i].key.1, os1[i].key.2)] == i by {
        if i != id { assert(os1[i] == os0[i]); assert(rs(os0, i, sd, x)); }
    }
    assert forall|k: (Price, Nanos)| #[trigger] s1.om().contains_key(k) implies 0 <= s1.om()[k] < n && rs(os1, s1.om()[k] as int, sd, x) && (os1[s1.om()[k] as int].key.1, os1[s1.om()[k] as int].key.2) == k by {
        assert(s0.om().contains_key(k));
    }
    assert forall|p: u32| #[trigger] s1.lv().contains_key(p) <==> lvl_cnt(os1, n, sd, x, p) > 0 by {
        assert(s0.lv().contains_key(p) <==> lvl_cnt(os0, n, sd, x, p) > 0);
        lemma_delta(os0, x, os1, x, n, sd, p, id, id);
    }
    assert forall|p: u32| #[trigger] s1.lv().contains_key(p) implies s1.lv()[p].0 == lvl_vol(os1, n, sd, x, p) && s1.lv()[p].1 == lvl_cnt(os1, n, sd, x, p) by {
        lemma_delta(os0, x, os1, x, n, sd, p, id, id);
        assert(s0.lv().contains_key(p) ==> s0.lv()[p].0 == lvl_vol(os0, n, sd, x, p));
    }
}
// entries that are not on side sd (before and after) do not matter to side sd
proof fn lemma_other_side(os0: Seq<OrderEntry>, s: OrderBookSide, sd: Side, x: int, id: int, e1: OrderEntry)
    requires side_wf(os0, s, sd, x), 0 <= id < os0.len(), !rs(os0, id, sd, x), e1.key.0 == os0[id].key.0 || id == x, !(id != x && e1.order.status == Status::Active && e1.key.0 == sd)
    ensures side_wf(os0.update(id, e1), s, sd, x)
{
    let os1 = os0.update(id, e1);
    let n = os0.len() as int;
    assert(!rs(os1, id, sd, x));
    assert forall|i: int| 0 <= i < n && rs(os1, i, sd, x) implies (#[trigger] os1[i]).order.vol >= 1
            && s.om().contains_key((os1[i].key.1, os1[i].key.2)) && s.om()[(os1[i].key.1, os1[i].key.2)] == i by {
        assert(os1[i] == os0[i]); assert(rs(os0, i, sd, x));
    }
    assert forall|k: (Price, Nanos)| #[trigger] s.om().contains_key(k) implies 0 <= s.om()[k] < n && rs(os1, s.om()[k] as int, sd, x) && (os1[s.om()[k] as int].key.1, os1[s.om()[k] as int].key.2) == k by {
        let i = s.om()[k] as int; assert(rs(os0, i, sd, x)); assert(i != id);
    }
    assert forall|p: u32| true implies lvl_cnt(os1, n, sd, x, p) == lvl_cnt(os0, n, sd, x, p) && lvl_vol(os1, n, sd, x, p) == lvl_vol(os0, n, sd, x, p) by {
        lemma_delta(os0, x, os1, x, n, sd, p, id, id);
    }
    lemma_delta(os0, x, os1, x, n, sd, 0, id, id);
    assert forall|p: u32| #[trigger] s.lv().contains_key(p) <==> lvl_cnt(os1, n, sd, x, p) > 0 by { lemma_delta(os0, x, os1, x, n, sd, p, id, id); }
    assert forall|p: u32| #[trigger] s.lv().contains_key(p) implies s.lv()[p].0 == lvl_vol(os1, n, sd, x, p) && s.lv()[p].1 == lvl_cnt(os1, n, sd, x, p) by { lemma_delta(os0, x, os1, x, n, sd, p, id, id); }
}

// reference matcher for an aggressive bid (from the C01 statement); the aggressor is entry x and is never its own counterparty
spec fn ref_match_bid(os: Seq<OrderEntry>, trs: Seq<Trade>, tv: int, agg: Order, t: Nanos, x: int) -> (Seq<OrderEntry>, Seq<Trade>, int, Order)
    decreases tot_cnt(os, os.len() as int, Side::Ask, x), agg.vol
{
    if agg.vol > 0 && has_resting(os, Side::Ask, x) && 0 <= best(os, Side::Ask, x) < os.len() && agg.price >= os[best(os, Side::Ask, x)].order.price && os[best(os, Side::Ask, x)].order.vol > 0 {
        let b = best(os, Side::Ask, x);
        let v = if agg.vol <= os[b].order.vol { agg.vol } else { os[b].order.vol };
        let pass2 = fill(os[b].order, v, t);
        let agg2 = fill(agg, v, t);
        let tr = Trade { t, side: os[b].order.side, price: os[b].order.price, vol: v, active_order_id: agg.order_id, passive_order_id: os[b].order.order_id };
        let os2 = os.update(b, OrderEntry { order: pass2, key: os[b].key });
        if tot_cnt(os2, os2.len() as int, Side::Ask, x) < tot_cnt(os, os.len() as int, Side::Ask, x) || (tot_cnt(os2, os2.len() as int, Side::Ask, x) == tot_cnt(os, os.len() as int, Side::Ask, x) && agg2.vol < agg.vol) {
            ref_match_bid(os2, trs.push(tr), tv + v, agg2, t, x)
        } else { (os, trs, tv, agg) }
    } else {
        (os, trs, tv, agg)
    }
}


proof fn lemma_ref_match_bid_props(os: Seq<OrderEntry>, trs: Seq<Trade>, tv: int, agg: Order, t: Nanos, x: int)
    requires agg.status != Status::Filled, agg.vol >= 1
    ensures ({
        let r = ref_match_bid(os, trs, tv, agg, t, x);
        &&& r.0.len() == os.len()
        &&& r.3.order_id == agg.order_id && r.3.side == agg.side && r.3.price == agg.price && r.3.trader_id == agg.trader_id
            && r.3.arr_time == agg.arr_time && r.3.start_vol == agg.start_vol
        &&& r.3.vol <= agg.vol
        &&& (r.3.status == Status::Filled <==> r.3.vol == 0)
        &&& (r.3.status != Status::Filled ==> r.3.status == agg.status && r.3.end_time == agg.end_time)
    })
    decreases tot_cnt(os, os.len() as int, Side::Ask, x), agg.vol
{
    if agg.vol > 0 && has_resting(os, Side::Ask, x) && 0 <= best(os, Side::Ask, x) < os.len() && agg.price >= os[best(os, Side::Ask, x)].order.price && os[best(os, Side::Ask, x)].order.vol > 0 {
        let b = best(os, Side::Ask, x);
        let v = if agg.vol <= os[b].order.vol { agg.vol } else { os[b].order.vol };
        let pass2 = fill(os[b].order, v, t);
        let agg2 = fill(agg, v, t);
        let tr = Trade { t, side: os[b].order.side, price: os[b].order.price, vol: v, active_order_id: agg.order_id, passive_order_id: os[b].order.order_id };
        let os2 = os.update(b, OrderEntry { order: pass2, key: os[b].key });
        if tot_cnt(os2, os2.len() as int, Side::Ask, x) < tot_cnt(os, os.len() as int, Side::Ask, x) || (tot_cnt(os2, os2.len() as int, Side::Ask, x) == tot_cnt(os, os.len() as int, Side::Ask, x) && agg2.vol < agg.vol) {
            if agg2.vol >= 1 { lemma_ref_match_bid_props(os2, trs.push(tr), tv + v, agg2, t, x); }
            else { assert(ref_match_bid(os2, trs.push(tr), tv + v, agg2, t, x) == (os2, trs.push(tr), tv + v, agg2)); }
        }
    }
}
spec fn ref_match_ask(os: Seq<OrderEntry>, trs: Seq<Trade>, tv: int, agg: Order, t: Nanos, x: int) -> (Seq<OrderEntry>, Seq<Trade>, int, Order)
    decreases tot_cnt(os, os.len() as int, Side::Bid, x), agg.vol
{
    if agg.vol > 0 && has_resting(os, Side::Bid, x) && 0 <= best(os, Side::Bid, x) < os.len() && agg.price <= os[best(os, Side::Bid, x)].order.price && os[best(os, Side::Bid, x)].order.vol > 0 {
        let b = best(os, Side::Bid, x);
        let v = if agg.vol <= os[b].order.vol { agg.vol } else { os[b].order.vol };
        let pass2 = fill(os[b].order, v, t);
        let agg2 = fill(agg, v, t);
        let tr = Trade { t, side: os[b].order.side, price: os[b].order.price, vol: v, active_order_id: agg.order_id, passive_order_id: os[b].order.order_id };
        let os2 = os.update(b, OrderEntry { order: pass2, key: os[b].key });
        if tot_cnt(os2, os2.len() as int, Side::Bid, x) < tot_cnt(os, os.len() as int, Side::Bid, x) || (tot_cnt(os2, os2.len() as int, Side::Bid, x) == tot_cnt(os, os.len() as int, Side::Bid, x) && agg2.vol < agg.vol) {
            ref_match_ask(os2, trs.push(tr), tv + v, agg2, t, x)
        } else { (os, trs, tv, agg) }
    } else {
        (os, trs, tv, agg)
    }
}
proof fn lemma_ref_match_ask_props(os: Seq<OrderEntry>, trs: Seq<Trade>, tv: int, agg: Order, t: Nanos, x: int)
    requires agg.status != Status::Filled, agg.vol >= 1
    ensures ({
        let r = ref_match_ask(os, trs, tv, agg, t, x);
        &&& r.0.len() == os.len()
        &&& r.3.order_id == agg.order_id && r.3.side == agg.side && r.3.price == agg.price && r.3.trader_id == agg.trader_id
            && r.3.arr_time == agg.arr_time && r.3.start_vol == agg.start_vol
        &&& r.3.vol <= agg.vol
        &&& (r.3.status == Status::Filled <==> r.3.vol == 0)
        &&& (r.3.status != Status::Filled ==> r.3.status == agg.status && r.3.end_time == agg.end_time)
    })
    decreases tot_cnt(os, os.len() as int, Side::Bid, x), agg.vol
{
    if agg.vol > 0 && has_resting(os, Side::Bid, x) && 0 <= best(os, Side::Bid, x) < os.len() && agg.price <= os[best(os, Side::Bid, x)].order.price && os[best(os, Side::Bid, x)].order.vol > 0 {
        let b = best(os, Side::Bid, x);
        let v = if agg.vol <= os[b].order.vol { agg.vol } else { os[b].order.vol };
        let pass2 = fill(os[b].order, v, t);
        let agg2 = fill(agg, v, t);
        let tr = Trade { t, side: os[b].order.side, price: os[b].order.price, vol: v, active_order_id: agg.order_id, passive_order_id: os[b].order.order_id };
        let os2 = os.update(b, OrderEntry { order: pass2, key: os[b].key });
        if tot_cnt(os2, os2.len() as int, Side::Bid, x) < tot_cnt(os, os.len() as int, Side::Bid, x) || (tot_cnt(os2, os2.len() as int, Side::Bid, x) == tot_cnt(os, os.len() as int, Side::Bid, x) && agg2.vol < agg.vol) {
            if agg2.vol >= 1 { lemma_ref_match_ask_props(os2, trs.push(tr), tv + v, agg2, t, x); }
            else { assert(ref_match_ask(os2, trs.push(tr), tv + v, agg2, t, x) == (os2, trs.push(tr), tv + v, agg2)); }
        }
    }
}
impl Book {
    spec fn wfx(&self, x: int) -> bool {
        ids_wf(self.orders@) && side_wf(self.orders@, self.ask_side.0, Side::Ask, x) && side_wf(self.orders@, self.bid_side.0, Side::Bid, x)
    }

    #[verifier::exec_allows_no_decreases_clause]
    fn match_bid(&mut self, order_entry: &mut OrderEntry)
        requires
            old(self).wfx(old(order_entry).order.order_id as int),
            old(order_entry).order.order_id < old(self).orders@.len(),
            old(self).orders@[old(order_entry).order.order_id as int].key.0 == Side::Bid,
            old(self).trade_vol as int + old(order_entry).order.vol <= u32::MAX,
        ensures
            final(self).wfx(old(order_entry).order.order_id as int),
            (final(self).orders@, final(self).trades@, final(self).trade_vol as int, final(order_entry).order)
                == ref_match_bid(old(self).orders@, old(self).trades@, old(self).trade_vol as int, old(order_entry).order, old(self).t, old(order_entry).order.order_id as int),
            final(self).t == old(self).t, final(self).tick_size == old(self).tick_size, final(self).trading == old(self).trading,
            final(self).bid_side == old(self).bid_side,
            final(order_entry).key == old(order_entry).key,
            final(self).orders@.len() == old(self).orders@.len(),
            final(self).orders@[old(order_entry).order.order_id as int] == old(self).orders@[old(order_entry).order.order_id as int],
    {
        let ghost x = order_entry.order.order_id as int;
        while (order_entry.order.vol > 0) && (order_entry.order.price >= self.ask_side.best_price())
            invariant
                self.wfx(x), x == order_entry.order.order_id, 0 <= x < self.orders@.len(), self.orders@[x].key.0 == Side::Bid,
                self.t == old(self).t, self.tick_size == old(self).tick_size, self.trading == old(self).trading, self.bid_side == old(self).bid_side,
                order_entry.key == old(order_entry).key,
                self.orders@.len() == old(self).orders@.len(), self.orders@[x] == old(self).orders@[x],
                self.trade_vol as int + order_entry.order.vol <= u32::MAX,
                ref_match_bid(self.orders@, self.trades@, self.trade_vol as int, order_entry.order, self.t, x)
                    == ref_match_bid(old(self).orders@, old(self).trades@, old(self).trade_vol as int, old(order_entry).order, old(self).t, x),
            ensures
                order_entry.order.vol == 0 || self.ask_side.0.om().dom() =~= Set::empty() || order_entry.order.price < min_k(self.ask_side.0.om()).0,
        {
            let next_order_id = self.ask_side.best_order_idx();
            match next_order_id {
                Some(id) => {
                    proof {
                        let os = self.orders@;
                        lemma_best(os, self.ask_side.0, Side::Ask, x);
                        lemma_member(os, os.len() as int, Side::Ask, x, id as int);
                        assert(lvl_cnt(os, os.len() as int, Side::Ask, x, os[id as int].key.1) > 0);
                        assert(self.ask_side.0.lv().contains_key(os[id as int].key.1));
                        lemma_nonneg(os, os.len() as int, Side::Ask, x, os[id as int].key.1);
                    }
                    let ghost os0 = self.orders@;
                    let ghost side0 = self.ask_side.0;
                    let match_order = &mut self.orders.get_mut(id).unwrap();
                    let trade_vol = match_orders(
                        self.t,
                        &mut order_entry.order,
                        &mut match_order.order,
                        &mut self.trades,
                    );
                    self.trade_vol += trade_vol;
                    if match_order.order.status == Status::Filled {
                        self.ask_side.remove_order(match_order.key, trade_vol);
                    } else {
                        self.ask_side.remove_vol(match_order.key.1, trade_vol);
                    }
                    proof {
                        let os1 = self.orders@;
                        let e1 = os1[id as int];
                        assert(os1 =~= os0.update(id as int, e1));
                        lemma_step_wf(os0, side0, Side::Ask, x, id as int, e1, self.ask_side.0, trade_vol);
                        lemma_other_side(os0, self.bid_side.0, Side::Bid, x, id as int, e1);
                        assert(e1 == OrderEntry { order: fill(os0[id as int].order, trade_vol, self.t), key: os0[id as int].key });
                        lemma_delta(os0, x, os1, x, os0.len() as int, Side::Ask, 0, id as int, id as int);
                    }
                }
                None => {
                    break;
                }
            }
        }
        proof {
            lemma_best(self.orders@, self.ask_side.0, Side::Ask, x);
        }
    }
    #[verifier::exec_allows_no_decreases_clause]
    fn match_ask(&mut self, order_entry: &mut OrderEntry)
        requires
            old(self).wfx(old(order_entry).order.order_id as int),
            old(order_entry).order.order_id < old(self).orders@.len(),
            old(self).orders@[old(order_entry).order.order_id as int].key.0 == Side::Ask,
            old(self).trade_vol as int + old(order_entry).order.vol <= u32::MAX,
        ensures
            final(self).wfx(old(order_entry).order.order_id as int),
            (final(self).orders@, final(self).trades@, final(self).trade_vol as int, final(order_entry).order)
                == ref_match_ask(old(self).orders@, old(self).trades@, old(self).trade_vol as int, old(order_entry).order, old(self).t, old(order_entry).order.order_id as int),
            final(self).t == old(self).t, final(self).tick_size == old(self).tick_size, final(self).trading == old(self).trading,
            final(self).ask_side == old(self).ask_side,
            final(order_entry).key == old(order_entry).key,
            final(self).orders@.len() == old(self).orders@.len(),
            final(self).orders@[old(order_entry).order.order_id as int] == old(self).orders@[old(order_entry).order.order_id as int],
    {
        let ghost x = order_entry.order.order_id as int;
        while (order_entry.order.vol > 0) && (order_entry.order.price <= self.bid_side.best_price())
            invariant
                self.wfx(x), x == order_entry.order.order_id, 0 <= x < self.orders@.len(), self.orders@[x].key.0 == Side::Ask,
                self.t == old(self).t, self.tick_size == old(self).tick_size, self.trading == old(self).trading, self.ask_side == old(self).ask_side,
                order_entry.key == old(order_entry).key,
                self.orders@.len() == old(self).orders@.len(), self.orders@[x] == old(self).orders@[x],
                self.trade_vol as int + order_entry.order.vol <= u32::MAX,
                ref_match_ask(self.orders@, self.trades@, self.trade_vol as int, order_entry.order, self.t, x)
                    == ref_match_ask(old(self).orders@, old(self).trades@, old(self).trade_vol as int, old(order_entry).order, old(self).t, x),
            ensures
                order_entry.order.vol == 0 || self.bid_side.0.om().dom() =~= Set::empty() || order_entry.order.price > u32::MAX - min_k(self.bid_side.0.om()).0,
        {
            let next_order_id = self.bid_side.best_order_idx();
            match next_order_id {
                Some(id) => {
                    proof {
                        let os = self.orders@;
                        lemma_best(os, self.bid_side.0, Side::Bid, x);
                        lemma_member(os, os.len() as int, Side::Bid, x, id as int);
                        assert(lvl_cnt(os, os.len() as int, Side::Bid, x, os[id as int].key.1) > 0);
                        assert(self.bid_side.0.lv().contains_key(os[id as int].key.1));
                        lemma_nonneg(os, os.len() as int, Side::Bid, x, os[id as int].key.1);
                    }
                    let ghost os0 = self.orders@;
                    let ghost side0 = self.bid_side.0;
                    let match_order = &mut self.orders.get_mut(id).unwrap();
                    let trade_vol = match_orders(
                        self.t,
                        &mut order_entry.order,
                        &mut match_order.order,
                        &mut self.trades,
                    );
                    self.trade_vol += trade_vol;
                    if match_order.order.status == Status::Filled {
                        self.bid_side.remove_order(match_order.key, trade_vol);
                    } else {
                        self.bid_side.remove_vol(match_order.key.1, trade_vol);
                    }
                    proof {
                        let os1 = self.orders@;
                        let e1 = os1[id as int];
                        assert(os1 =~= os0.update(id as int, e1));
                        lemma_step_wf(os0, side0, Side::Bid, x, id as int, e1, self.bid_side.0, trade_vol);
                        lemma_other_side(os0, self.ask_side.0, Side::Ask, x, id as int, e1);
                        assert(e1 == OrderEntry { order: fill(os0[id as int].order, trade_vol, self.t), key: os0[id as int].key });
                        lemma_delta(os0, x, os1, x, os0.len() as int, Side::Bid, 0, id as int, id as int);
                    }
                }
                None => {
                    break;
                }
            }
        }
        proof {
            lemma_best(self.orders@, self.bid_side.0, Side::Bid, x);
        }
    }
}


// un-excluding index x with a new entry e that rests on side sd under a fresh key: side sd after insert_order
proof fn lemma_insert_wf(os0: Seq<OrderEntry>, s0: OrderBookSide, sd: Side, x: int, e: OrderEntry, s1: OrderBookSide)
    requires
        side_wf(os0, s0, sd, x), 0 <= x < os0.len(), x <= usize::MAX,
        e.order.status == Status::Active, e.key.0 == sd, e.order.vol >= 1,
        !s0.om().contains_key((e.key.1, e.key.2)),
        s1.om() == s0.om().insert((e.key.1, e.key.2), x as usize),
        s1.sv() == s0.sv() + e.order.vol,
        s1.lv() == s0.lv().insert(e.key.1, if s0.lv().contains_key(e.key.1) { ((s0.lv()[e.key.1].0 + e.order.vol) as u32, (s0.lv()[e.key.1].1 + 1) as u32) } else { (e.order.vol, 1u32) }),
        s0.sv() + e.order.vol <= u32::MAX,
    ensures side_wf(os0.update(x, e), s1, sd, -1)
{
    let os1 = os0.update(x, e);
    let n = os0.len() as int;
    let p0 = e.key.1;
    lemma_delta(os0, x, os1, -1, n, sd, p0, x, x);
    lemma_nonneg(os0, n, sd, x, p0);
    assert(rs(os1, x, sd, -1));
    assert(!rs(os0, x, sd, x));
    if s0.lv().contains_key(p0) { assert(s0.lv()[p0].1 == lvl_cnt(os0, n, sd, x, p0) && s0.lv()[p0].0 == lvl_vol(os0, n, sd, x, p0)); }
    assert forall|i: int| 0 <= i < n && rs(os1, i, sd, -1) implies (#[trigger] os1[i]).order.vol >= 1
            && s1.om().contains_key((os1[i].key.1, os1[i].key.2)) && s1.om()[(os1[i].key.1, os1[i].key.2)] == i by {
        if i != x { assert(os1[i] == os0[i]); assert(rs(os0, i, sd, x)); assert(s0.om().contains_key((os0[i].key.1, os0[i].key.2)));
                    assert((os0[i].key.1, os0[i].key.2) != (e.key.1, e.key.2)); }
        else { assert(os1[x] == e); }
    }
    assert forall|k: (Price, Nanos)| #[trigger] s1.om().contains_key(k) implies 0 <= s1.om()[k] < n && rs(os1, s1.om()[k] as int, sd, -1) && (os1[s1.om()[k] as int].key.1, os1[s1.om()[k] as int].key.2) == k by {
        if k != (e.key.1, e.key.2) { assert(s0.om().contains_key(k)); let i = s0.om()[k] as int; assert(rs(os0, i, sd, x)); assert(i != x); }
    }
    assert forall|p: u32| #[trigger] s1.lv().contains_key(p) <==> lvl_cnt(os1, n, sd, -1, p) > 0 by {
        assert(s0.lv().contains_key(p) <==> lvl_cnt(os0, n, sd, x, p) > 0);
        lemma_delta(os0, x, os1, -1, n, sd, p, x, x);
    }
    assert forall|p: u32| #[trigger] s1.lv().contains_key(p) implies s1.lv()[p].0 == lvl_vol(os1, n, sd, -1, p) && s1.lv()[p].1 == lvl_cnt(os1, n, sd, -1, p) by {
        lemma_delta(os0, x, os1, -1, n, sd, p, x, x);
        assert(s0.lv().contains_key(p) ==> s0.lv()[p].0 == lvl_vol(os0, n, sd, x, p) && s0.lv()[p].1 == lvl_cnt(os0, n, sd, x, p));
        lemma_nonneg(os0, n, sd, x, p);
        if !s0.lv().contains_key(p) { assert(lvl_cnt(os0, n, sd, x, p) == 0); lemma_cnt0_vol0(os0, n, sd, x, p); }
        lemma_cnt_le_vol(os0, n, sd, x, p);
    }
}
// un-excluding index x with an entry that does not rest on side sd
proof fn lemma_unexclude_other(os0: Seq<OrderEntry>, s: OrderBookSide, sd: Side, x: int, e: OrderEntry)
    requires side_wf(os0, s, sd, x), 0 <= x < os0.len(), !(e.order.status == Status::Active && e.key.0 == sd)
    ensures side_wf(os0.update(x, e), s, sd, -1)
{
    let os1 = os0.update(x, e);
    let n = os0.len() as int;
    assert(!rs(os1, x, sd, -1));
    assert forall|i: int| 0 <= i < n && rs(os1, i, sd, -1) implies (#[trigger] os1[i]).order.vol >= 1
            && s.om().contains_key((os1[i].key.1, os1[i].key.2)) && s.om()[(os1[i].key.1, os1[i].key.2)] == i by {
        assert(os1[i] == os0[i]); assert(rs(os0, i, sd, x));
    }
    assert forall|k: (Price, Nanos)| #[trigger] s.om().contains_key(k) implies 0 <= s.om()[k] < n && rs(os1, s.om()[k] as int, sd, -1) && (os1[s.om()[k] as int].key.1, os1[s.om()[k] as int].key.2) == k by {
        let i = s.om()[k] as int; assert(rs(os0, i, sd, x)); assert(i != x);
    }
    lemma_delta(os0, x, os1, -1, n, sd, 0, x, x);
    assert forall|p: u32| #[trigger] s.lv().contains_key(p) <==> lvl_cnt(os1, n, sd, -1, p) > 0 by { lemma_delta(os0, x, os1, -1, n, sd, p, x, x); }
    assert forall|p: u32| #[trigger] s.lv().contains_key(p) implies s.lv()[p].0 == lvl_vol(os1, n, sd, -1, p) && s.lv()[p].1 == lvl_cnt(os1, n, sd, -1, p) by { lemma_delta(os0, x, os1, -1, n, sd, p, x, x); }
}
// excluding an index that is not resting changes nothing
proof fn lemma_exclude_nonresting(os: Seq<OrderEntry>, s: OrderBookSide, sd: Side, x: int)
    requires side_wf(os, s, sd, -1), 0 <= x < os.len(), !rs(os, x, sd, -1)
    ensures side_wf(os, s, sd, x)
{
    let n = os.len() as int;
    assert forall|k: (Price, Nanos)| #[trigger] s.om().contains_key(k) implies 0 <= s.om()[k] < n && rs(os, s.om()[k] as int, sd, x) && (os[s.om()[k] as int].key.1, os[s.om()[k] as int].key.2) == k by {
        let i = s.om()[k] as int; assert(rs(os, i, sd, -1));
    }
    lemma_delta(os, -1, os, x, n, sd, 0, x, x);
    assert forall|p: u32| #[trigger] s.lv().contains_key(p) <==> lvl_cnt(os, n, sd, x, p) > 0 by { lemma_delta(os, -1, os, x, n, sd, p, x, x); }
    assert forall|p: u32| #[trigger] s.lv().contains_key(p) implies s.lv()[p].0 == lvl_vol(os, n, sd, x, p) && s.lv()[p].1 == lvl_cnt(os, n, sd, x, p) by { lemma_delta(os, -1, os, x, n, sd, p, x, x); }
}

impl Book {
    spec fn obs_eq(&self, o: Book) -> bool {
        self.orders@ == o.orders@ && self.trades@ == o.trades@ && self.t == o.t && self.tick_size == o.tick_size && self.trade_vol == o.trade_vol && self.trading == o.trading
        && self.ask_side == o.ask_side && self.bid_side == o.bid_side
    }
    spec fn wf_after(&self, x: int, e: OrderEntry) -> bool {
        let os = self.orders@.update(x, e);
        ids_wf(os) && side_wf(os, self.ask_side.0, Side::Ask, -1) && side_wf(os, self.bid_side.0, Side::Bid, -1)
    }

    fn place_bid_limit(&mut self, order_entry: &mut OrderEntry)
        requires
            old(self).wfx(old(order_entry).order.order_id as int),
            old(order_entry).order.order_id < old(self).orders@.len(),
            old(self).orders@[old(order_entry).order.order_id as int].key == old(order_entry).key,
            old(order_entry).key.0 == Side::Bid, old(order_entry).order.side == Side::Bid,
            old(order_entry).order.status == Status::Active, old(order_entry).order.vol >= 1,
            old(order_entry).key.1 == u32::MAX - old(order_entry).order.price,
            old(self).trade_vol as int + old(order_entry).order.vol <= u32::MAX,
            old(self).bid_side.0.sv() + old(order_entry).order.vol <= u32::MAX,
            // [discipline] no resting bid with the same (price key, t)
            !old(self).bid_side.0.om().contains_key((old(order_entry).key.1, old(self).t)),
        ensures
            final(self).wf_after(old(order_entry).order.order_id as int, *final(order_entry)),
            final(self).orders@.len() == old(self).orders@.len(),
            final(self).t == old(self).t, final(self).trading == old(self).trading,
    {
        let ghost x = order_entry.order.order_id as int;
        proof { lemma_ref_match_bid_props(self.orders@, self.trades@, self.trade_vol as int, order_entry.order, self.t, x); }
        if self.trading {
            self.match_bid(order_entry);
        }
        proof {
            // fill keeps identity fields
            assert(order_entry.order.order_id == x && order_entry.order.side == Side::Bid);
        }
        if order_entry.order.status != Status::Filled {
            let key: OrderKey = (Side::Bid, order_entry.key.1, self.t);
            order_entry.key = key;
            let ghost s0 = self.bid_side.0;
            proof {
                let os = self.orders@; let n = os.len() as int;
                lemma_nonneg(os, n, Side::Bid, x, key.1);
                if s0.lv().contains_key(key.1) {
                    assert(s0.lv()[key.1].0 == lvl_vol(os, n, Side::Bid, x, key.1) && s0.lv()[key.1].1 == lvl_cnt(os, n, Side::Bid, x, key.1));
                    lemma_cnt_le_vol(os, n, Side::Bid, x, key.1);
                }
            }
            self.bid_side
                .insert_order(key, order_entry.order.order_id, order_entry.order.vol);
            proof {
                lemma_insert_wf(self.orders@, s0, Side::Bid, x, *order_entry, self.bid_side.0);
                lemma_unexclude_other(self.orders@, self.ask_side.0, Side::Ask, x, *order_entry);
            }
        } else {
            proof {
                lemma_unexclude_other(self.orders@, self.bid_side.0, Side::Bid, x, *order_entry);
                lemma_unexclude_other(self.orders@, self.ask_side.0, Side::Ask, x, *order_entry);
            }
        }
    }
}
proof fn lemma_cnt0_vol0(os: Seq<OrderEntry>, n: int, sd: Side, x: int, p: u32)
    requires lvl_cnt(os, n, sd, x, p) == 0
    ensures lvl_vol(os, n, sd, x, p) == 0
    decreases n
{ if n > 0 { lemma_cnt0_vol0(os, n - 1, sd, x, p); } }

impl Book {
    spec fn place_pre(&self, e: OrderEntry) -> bool {
        let x = e.order.order_id as int;
        &&& x < self.orders@.len() && self.orders@[x].key == e.key
        &&& e.key.0 == e.order.side && e.order.status == Status::Active && e.order.vol >= 1
        &&& e.key.1 == (match e.order.side { Side::Ask => e.order.price, Side::Bid => (u32::MAX - e.order.price) as u32 })
        &&& self.trade_vol as int + e.order.vol <= u32::MAX
        &&& (match e.order.side { Side::Bid => self.bid_side.0.sv() + e.order.vol <= u32::MAX && !self.bid_side.0.om().contains_key((e.key.1, self.t)),
                                  Side::Ask => self.ask_side.0.sv() + e.order.vol <= u32::MAX && !self.ask_side.0.om().contains_key((e.key.1, self.t)) })
    }
    #[verifier::external_body]
    fn place_ask_limit(&mut self, order_entry: &mut OrderEntry)
        requires old(self).wfx(old(order_entry).order.order_id as int), old(self).place_pre(*old(order_entry)), old(order_entry).order.side == Side::Ask,
        ensures final(self).wf_after(old(order_entry).order.order_id as int, *final(order_entry)), final(self).orders@.len() == old(self).orders@.len(),
            final(self).t == old(self).t, final(self).trading == old(self).trading,
    { unimplemented!() }
    #[verifier::external_body]
    fn place_ask_market(&mut self, order_entry: &mut OrderEntry)
        requires old(self).wfx(old(order_entry).order.order_id as int), old(self).place_pre(*old(order_entry)), old(order_entry).order.side == Side::Ask,
        ensures final(self).wf_after(old(order_entry).order.order_id as int, *final(order_entry)), final(self).orders@.len() == old(self).orders@.len(),
            final(self).t == old(self).t, final(self).trading == old(self).trading,
    { unimplemented!() }

    fn place_bid_market(&mut self, order_entry: &mut OrderEntry)
        requires old(self).wfx(old(order_entry).order.order_id as int), old(self).place_pre(*old(order_entry)), old(order_entry).order.side == Side::Bid,
        ensures final(self).wf_after(old(order_entry).order.order_id as int, *final(order_entry)), final(self).orders@.len() == old(self).orders@.len(),
            final(self).t == old(self).t, final(self).trading == old(self).trading,
            final(order_entry).order.status != Status::Active,
    {
        let ghost x = order_entry.order.order_id as int;
        proof { lemma_ref_match_bid_props(self.orders@, self.trades@, self.trade_vol as int, order_entry.order, self.t, x); }
        match self.trading {
            true => {
                self.match_bid(order_entry);
                if order_entry.order.status != Status::Filled {
                    order_entry.order.status = Status::Cancelled;
                    order_entry.order.end_time = self.t;
                }
            }
            false => {
                order_entry.order.status = Status::Rejected;
                order_entry.order.end_time = self.t;
            }
        }
        proof {
            lemma_unexclude_other(self.orders@, self.bid_side.0, Side::Bid, x, *order_entry);
            lemma_unexclude_other(self.orders@, self.ask_side.0, Side::Ask, x, *order_entry);
        }
    }

    fn place_order(&mut self, order_id: OrderId)
        requires
            old(self).wfx(-1), order_id < old(self).orders@.len(),
            old(self).orders@[order_id as int].order.status == Status::New ==>
                old(self).place_pre(OrderEntry { order: Order { status: Status::Active, arr_time: old(self).t, ..old(self).orders@[order_id as int].order }, key: old(self).orders@[order_id as int].key }),
        ensures
            final(self).wfx(-1), final(self).orders@.len() == old(self).orders@.len(),
            old(self).orders@[order_id as int].order.status != Status::New ==> *final(self) == *old(self),   // [C04.noop]
    {
        let mut order_entry = self.orders[order_id];

        if order_entry.order.status != Status::New {
            return;
        }

        order_entry.order.status = Status::Active;
        order_entry.order.arr_time = self.t;
        proof {
            lemma_exclude_nonresting(self.orders@, self.ask_side.0, Side::Ask, order_id as int);
            lemma_exclude_nonresting(self.orders@, self.bid_side.0, Side::Bid, order_id as int);
        }

        match order_entry.order.side {
            Side::Bid => {
                if order_entry.order.price == Price::MAX {
                    self.place_bid_market(&mut order_entry)
                } else {
                    self.place_bid_limit(&mut order_entry)
                }
            }
            Side::Ask => {
                if order_entry.order.price == 0 {
                    self.place_ask_market(&mut order_entry)
                } else {
                    self.place_ask_limit(&mut order_entry)
                }
            }
        }

        self.orders[order_id] = order_entry;
    }

    fn cancel_order(&mut self, order_id: OrderId)
        requires old(self).wfx(-1), order_id < old(self).orders@.len(),
        ensures final(self).wfx(-1), final(self).orders@.len() == old(self).orders@.len(),
            old(self).orders@[order_id as int].order.status != Status::Active ==> final(self).obs_eq(*old(self)),   // [C04.noop]
            old(self).orders@[order_id as int].order.status == Status::Active ==>
                final(self).orders@ == old(self).orders@.update(order_id as int, OrderEntry { order: Order { status: Status::Cancelled, end_time: old(self).t, ..old(self).orders@[order_id as int].order }, key: old(self).orders@[order_id as int].key }),
    {
        let ghost os0 = self.orders@;
        let ghost bid0 = self.bid_side.0;
        let ghost ask0 = self.ask_side.0;
        proof {
            let e = os0[order_id as int]; let n = os0.len() as int;
            if e.order.status == Status::Active {
                lemma_member(os0, n, e.key.0, -1, order_id as int);
                lemma_nonneg(os0, n, e.key.0, -1, e.key.1);
                match e.key.0 {
                    Side::Bid => { assert(lvl_cnt(os0, n, Side::Bid, -1, e.key.1) > 0); assert(bid0.lv().contains_key(e.key.1)); }
                    Side::Ask => { assert(lvl_cnt(os0, n, Side::Ask, -1, e.key.1) > 0); assert(ask0.lv().contains_key(e.key.1)); }
                }
            }
        }
        let cancelled_order = self.orders.get_mut(order_id);

        match cancelled_order {
            Some(order_entry) => {
                if order_entry.order.status == Status::Active {
                    order_entry.order.status = Status::Cancelled;
                    order_entry.order.end_time = self.t;
                    match order_entry.key.0 {
                        Side::Bid => {
                            self.bid_side
                                .remove_order(order_entry.key, order_entry.order.vol);
                        }
                        Side::Ask => {
                            self.ask_side
                                .remove_order(order_entry.key, order_entry.order.vol);
                        }
                    }
                }
            }
            None => panic!("No order with id {} exists", order_id),
        }
        proof {
            let os1 = self.orders@; let e0 = os0[order_id as int]; let e1 = os1[order_id as int];
            assert(os1 =~= os0.update(order_id as int, e1));
            if e0.order.status == Status::Active {
                match e0.key.0 {
                    Side::Bid => { lemma_step_wf(os0, bid0, Side::Bid, -1, order_id as int, e1, self.bid_side.0, e0.order.vol); lemma_other_side(os0, ask0, Side::Ask, -1, order_id as int, e1); }
                    Side::Ask => { lemma_step_wf(os0, ask0, Side::Ask, -1, order_id as int, e1, self.ask_side.0, e0.order.vol); lemma_other_side(os0, bid0, Side::Bid, -1, order_id as int, e1); }
                }
            } else {
                assert(os1 =~= os0);
            }
        }
    }
}

proof fn lemma_prefix(os0: Seq<OrderEntry>, os1: Seq<OrderEntry>, n: int, sd: Side, x: int, p: u32)
    requires 0 <= n <= os0.len(), n <= os1.len(), forall|j: int| 0 <= j < n ==> os0[j] == os1[j]
    ensures lvl_vol(os0, n, sd, x, p) == lvl_vol(os1, n, sd, x, p), lvl_cnt(os0, n, sd, x, p) == lvl_cnt(os1, n, sd, x, p),
            tot_vol(os0, n, sd, x) == tot_vol(os1, n, sd, x), tot_cnt(os0, n, sd, x) == tot_cnt(os1, n, sd, x)
    decreases n
{ if n > 0 { lemma_prefix(os0, os1, n - 1, sd, x, p); } }
proof fn lemma_push_nonresting(os: Seq<OrderEntry>, s: OrderBookSide, sd: Side, e: OrderEntry)
    requires side_wf(os, s, sd, -1), e.order.status != Status::Active
    ensures side_wf(os.push(e), s, sd, -1)
{
    let os1 = os.push(e); let n = os.len() as int;
    assert(!rs(os1, n, sd, -1));
    assert forall|i: int| 0 <= i < n + 1 && rs(os1, i, sd, -1) implies (#[trigger] os1[i]).order.vol >= 1
            && s.om().contains_key((os1[i].key.1, os1[i].key.2)) && s.om()[(os1[i].key.1, os1[i].key.2)] == i by {
        assert(i < n); assert(os1[i] == os[i]); assert(rs(os, i, sd, -1));
    }
    assert forall|k: (Price, Nanos)| #[trigger] s.om().contains_key(k) implies 0 <= s.om()[k] < n + 1 && rs(os1, s.om()[k] as int, sd, -1) && (os1[s.om()[k] as int].key.1, os1[s.om()[k] as int].key.2) == k by {
        let i = s.om()[k] as int; assert(rs(os, i, sd, -1)); assert(os1[i] == os[i]);
    }
    lemma_prefix(os, os1, n, sd, -1, 0);
    assert forall|p: u32| #[trigger] s.lv().contains_key(p) <==> lvl_cnt(os1, n + 1, sd, -1, p) > 0 by { lemma_prefix(os, os1, n, sd, -1, p); }
    assert forall|p: u32| #[trigger] s.lv().contains_key(p) implies s.lv()[p].0 == lvl_vol(os1, n + 1, sd, -1, p) && s.lv()[p].1 == lvl_cnt(os1, n + 1, sd, -1, p) by { lemma_prefix(os, os1, n, sd, -1, p); }
}

impl Book {
    fn current_order_id(&self) -> (r: OrderId) ensures r == self.orders@.len() {
        self.orders.len()
    }
    fn create_order(&mut self, side: Side, vol: Vol, trader_id: TraderId, price: Option<Price>) -> (res: Result<OrderId, OrderError>)
        requires old(self).wfx(-1), old(self).tick_size > 0,
            price matches Some(p) ==> p < u32::MAX,
        ensures
            final(self).wfx(-1),
            (res is Ok) <==> (price is None || price->0 % old(self).tick_size == 0),                                  // [C12.iff]
            res matches Err(e) ==> final(self).obs_eq(*old(self)) && e == (OrderError::PriceError { price: price->0, tick_size: old(self).tick_size }),   // [C12.no_trace]
            res matches Ok(id) ==> id == old(self).orders@.len()                                                              // [C04.dense_ids]
                && final(self).orders@.len() == old(self).orders@.len() + 1
                && final(self).orders@.drop_last() == old(self).orders@
                && final(self).orders@.last().order == (Order { side, status: Status::New, arr_time: old(self).t, end_time: u64::MAX, vol, start_vol: vol,
                        price: (match (side, price) { (_, Some(p)) => p, (Side::Bid, None) => u32::MAX, (Side::Ask, None) => 0u32 }), trader_id, order_id: id })
                && final(self).trades@ == old(self).trades@ && final(self).t == old(self).t && final(self).tick_size == old(self).tick_size
                && final(self).trade_vol == old(self).trade_vol && final(self).trading == old(self).trading
                && final(self).ask_side == old(self).ask_side && final(self).bid_side == old(self).bid_side,
    {
        let order_id = self.current_order_id();

        let order = match (side, price) {
            (Side::Bid, Some(p)) => {
                if p % self.tick_size != 0 {
                    return Err(OrderError::PriceError {
                        price: p,
                        tick_size: self.tick_size,
                    });
                }
                Order::buy_limit(self.t, vol, p, trader_id, order_id)
            }
            (Side::Bid, None) => Order::buy_market(self.t, vol, trader_id, order_id),
            (Side::Ask, Some(p)) => {
                if p % self.tick_size != 0 {
                    return Err(OrderError::PriceError {
                        price: p,
                        tick_size: self.tick_size,
                    });
                }
                Order::sell_limit(self.t, vol, p, trader_id, order_id)
            }
            (Side::Ask, None) => Order::sell_market(self.t, vol, trader_id, order_id),
        };

        let key = match side {
            Side::Bid => get_bid_key(0, order.price),
            Side::Ask => get_ask_key(0, order.price),
        };

        proof {
            lemma_push_nonresting(self.orders@, self.ask_side.0, Side::Ask, OrderEntry { order, key });
            lemma_push_nonresting(self.orders@, self.bid_side.0, Side::Bid, OrderEntry { order, key });
        }
        self.orders.push(OrderEntry { order, key });

        Ok(order_id)
    }
}

// removing resting entry x from the index = excluding it
proof fn lemma_remove_to_excluded(os: Seq<OrderEntry>, s0: OrderBookSide, sd: Side, x: int, s1: OrderBookSide)
    requires
        side_wf(os, s0, sd, -1), 0 <= x < os.len(), rs(os, x, sd, -1),
        s1.om() == s0.om().remove((os[x].key.1, os[x].key.2)),
        s1.sv() == s0.sv() - os[x].order.vol,
        s1.lv() == (if s0.lv()[os[x].key.1].1 == 1 { s0.lv().remove(os[x].key.1) } else { s0.lv().insert(os[x].key.1, ((s0.lv()[os[x].key.1].0 - os[x].order.vol) as u32, (s0.lv()[os[x].key.1].1 - 1) as u32)) }),
    ensures side_wf(os, s1, sd, x)
{
    let n = os.len() as int; let p0 = os[x].key.1;
    lemma_delta(os, -1, os, x, n, sd, p0, x, x);
    lemma_member(os, n, sd, -1, x);
    lemma_nonneg(os, n, sd, -1, p0);
    assert(s0.lv().contains_key(p0));
    assert(s0.lv()[p0].1 == lvl_cnt(os, n, sd, -1, p0) && s0.lv()[p0].0 == lvl_vol(os, n, sd, -1, p0));
    assert forall|i: int| 0 <= i < n && rs(os, i, sd, x) implies (#[trigger] os[i]).order.vol >= 1
            && s1.om().contains_key((os[i].key.1, os[i].key.2)) && s1.om()[(os[i].key.1, os[i].key.2)] == i by {
        assert(rs(os, i, sd, -1));
    }
    assert forall|k: (Price, Nanos)| #[trigger] s1.om().contains_key(k) implies 0 <= s1.om()[k] < n && rs(os, s1.om()[k] as int, sd, x) && (os[s1.om()[k] as int].key.1, os[s1.om()[k] as int].key.2) == k by {
        assert(s0.om().contains_key(k));
    }
    assert forall|p: u32| #[trigger] s1.lv().contains_key(p) <==> lvl_cnt(os, n, sd, x, p) > 0 by {
        assert(s0.lv().contains_key(p) <==> lvl_cnt(os, n, sd, -1, p) > 0);
        lemma_delta(os, -1, os, x, n, sd, p, x, x);
    }
    assert forall|p: u32| #[trigger] s1.lv().contains_key(p) implies s1.lv()[p].0 == lvl_vol(os, n, sd, x, p) && s1.lv()[p].1 == lvl_cnt(os, n, sd, x, p) by {
        lemma_delta(os, -1, os, x, n, sd, p, x, x);
        assert(s0.lv().contains_key(p) ==> s0.lv()[p].0 == lvl_vol(os, n, sd, -1, p));
    }
}

impl Book {
    fn reduce_order_vol(&mut self, order_entry: &mut OrderEntry, reduce_vol: Vol)
        requires
            old(self).wfx(-1), old(order_entry).order.order_id < old(self).orders@.len(),
            old(self).orders@[old(order_entry).order.order_id as int] == *old(order_entry),
            old(order_entry).order.status == Status::Active, 1 <= reduce_vol < old(order_entry).order.vol,
        ensures
            final(self).wf_after(old(order_entry).order.order_id as int, *final(order_entry)),
            *final(order_entry) == (OrderEntry { order: Order { vol: (old(order_entry).order.vol - reduce_vol) as u32, ..old(order_entry).order }, key: old(order_entry).key }),  // [C06.only_volume]
            final(self).bid_side.0.om() == old(self).bid_side.0.om() && final(self).ask_side.0.om() == old(self).ask_side.0.om(),   // [C06.keeps_priority]
            final(self).orders@ == old(self).orders@, final(self).trades@ == old(self).trades@, final(self).t == old(self).t,
            final(self).trade_vol == old(self).trade_vol, final(self).trading == old(self).trading, final(self).tick_size == old(self).tick_size,
    {
        let ghost x = order_entry.order.order_id as int;
        let ghost os0 = self.orders@; let ghost bid0 = self.bid_side.0; let ghost ask0 = self.ask_side.0;
        proof {
            let e = os0[x]; let n = os0.len() as int;
            lemma_member(os0, n, e.key.0, -1, x);
            lemma_nonneg(os0, n, e.key.0, -1, e.key.1);
            match e.key.0 {
                Side::Bid => { assert(lvl_cnt(os0, n, Side::Bid, -1, e.key.1) > 0); assert(bid0.lv().contains_key(e.key.1)); }
                Side::Ask => { assert(lvl_cnt(os0, n, Side::Ask, -1, e.key.1) > 0); assert(ask0.lv().contains_key(e.key.1)); }
            }
        }
        match order_entry.key.0 {
            Side::Bid => {
                order_entry.order.vol -= reduce_vol;
                self.bid_side.remove_vol(order_entry.key.1, reduce_vol)
            }
            Side::Ask => {
                order_entry.order.vol -= reduce_vol;
                self.ask_side.remove_vol(order_entry.key.1, reduce_vol)
            }
        }
        proof {
            match os0[x].key.0 {
                Side::Bid => { lemma_step_wf(os0, bid0, Side::Bid, -1, x, *order_entry, self.bid_side.0, reduce_vol); lemma_other_side(os0, ask0, Side::Ask, -1, x, *order_entry); }
                Side::Ask => { lemma_step_wf(os0, ask0, Side::Ask, -1, x, *order_entry, self.ask_side.0, reduce_vol); lemma_other_side(os0, bid0, Side::Bid, -1, x, *order_entry); }
            }
        }
    }
}

impl Book {
    spec fn pkey(sd: Side, p: Price) -> u32 { match sd { Side::Ask => p, Side::Bid => (u32::MAX - p) as u32 } }
    spec fn side_of(&self, sd: Side) -> OrderBookSide { match sd { Side::Ask => self.ask_side.0, Side::Bid => self.bid_side.0 } }

    fn replace_order(&mut self, order_entry: &mut OrderEntry, new_price: Price, new_vol: Vol)
        requires
            old(self).wfx(-1), old(order_entry).order.order_id < old(self).orders@.len(),
            old(self).orders@[old(order_entry).order.order_id as int] == *old(order_entry),
            old(order_entry).order.status == Status::Active,
            new_vol >= 1, 0 < new_price < u32::MAX,
            old(self).trade_vol as int + new_vol <= u32::MAX,
            old(self).side_of(old(order_entry).key.0).sv() + new_vol <= u32::MAX,
            // [discipline] after taking the order out, nothing rests on its side at (new price key, t)
            !old(self).side_of(old(order_entry).key.0).om().remove((old(order_entry).key.1, old(order_entry).key.2)).contains_key((Self::pkey(old(order_entry).key.0, new_price), old(self).t)),
        ensures
            final(self).wf_after(old(order_entry).order.order_id as int, *final(order_entry)),
            final(self).orders@.len() == old(self).orders@.len(), final(self).t == old(self).t, final(self).trading == old(self).trading,
            // [C06.identity]
            final(order_entry).order.order_id == old(order_entry).order.order_id && final(order_entry).order.trader_id == old(order_entry).order.trader_id
                && final(order_entry).order.arr_time == old(order_entry).order.arr_time && final(order_entry).order.start_vol == old(order_entry).order.start_vol
                && final(order_entry).order.price == new_price && final(order_entry).key.0 == old(order_entry).key.0,
            // [C06.requeued] not filled => resting under a fresh key stamped with the current time
            final(order_entry).order.status != Status::Filled ==> final(order_entry).order.status == Status::Active
                && final(order_entry).key == (old(order_entry).key.0, Self::pkey(old(order_entry).key.0, new_price), old(self).t),
            // [C13] no trading => no trade, volume as requested
            !old(self).trading ==> final(self).trades@ == old(self).trades@ && final(order_entry).order.vol == new_vol,
    {
        let ghost x = order_entry.order.order_id as int;
        let ghost os0 = self.orders@; let ghost bid0 = self.bid_side.0; let ghost ask0 = self.ask_side.0;
        let ghost sd = order_entry.key.0;
        proof {
            let e = os0[x]; let n = os0.len() as int;
            lemma_member(os0, n, e.key.0, -1, x);
            lemma_nonneg(os0, n, e.key.0, -1, e.key.1);
            match e.key.0 {
                Side::Bid => { assert(lvl_cnt(os0, n, Side::Bid, -1, e.key.1) > 0); assert(bid0.lv().contains_key(e.key.1)); }
                Side::Ask => { assert(lvl_cnt(os0, n, Side::Ask, -1, e.key.1) > 0); assert(ask0.lv().contains_key(e.key.1)); }
            }
        }
        match order_entry.key.0 {
            Side::Bid => self
                .bid_side
                .remove_order(order_entry.key, order_entry.order.vol),
            Side::Ask => self
                .ask_side
                .remove_order(order_entry.key, order_entry.order.vol),
        }
        proof {
            match sd {
                Side::Bid => { lemma_remove_to_excluded(os0, bid0, Side::Bid, x, self.bid_side.0); lemma_exclude_nonresting(os0, ask0, Side::Ask, x); }
                Side::Ask => { lemma_remove_to_excluded(os0, ask0, Side::Ask, x, self.ask_side.0); lemma_exclude_nonresting(os0, bid0, Side::Bid, x); }
            }
        }

        order_entry.order.vol = new_vol;
        order_entry.order.price = new_price;

        proof {
            lemma_ref_match_bid_props(self.orders@, self.trades@, self.trade_vol as int, order_entry.order, self.t, x);
            lemma_ref_match_ask_props(self.orders@, self.trades@, self.trade_vol as int, order_entry.order, self.t, x);
        }
        if self.trading {
            match order_entry.key.0 {
                Side::Bid => self.match_bid(order_entry),
                Side::Ask => self.match_ask(order_entry),
            }
        }

        if order_entry.order.status != Status::Filled {
            match order_entry.key.0 {
                Side::Bid => {
                    let key: OrderKey = get_bid_key(self.t, new_price);
                    order_entry.key = key;
                    let ghost s0 = self.bid_side.0;
                    proof {
                        let os = self.orders@; let n = os.len() as int;
                        lemma_nonneg(os, n, Side::Bid, x, key.1);
                        if s0.lv().contains_key(key.1) { lemma_cnt_le_vol(os, n, Side::Bid, x, key.1); }
                    }

                    self.bid_side.insert_order(
                        key,
                        order_entry.order.order_id,
                        order_entry.order.vol,
                    );
                    proof {
                        lemma_insert_wf(self.orders@, s0, Side::Bid, x, *order_entry, self.bid_side.0);
                        lemma_unexclude_other(self.orders@, self.ask_side.0, Side::Ask, x, *order_entry);
                    }
                }
                Side::Ask => {
                    let key: OrderKey = get_ask_key(self.t, new_price);
                    order_entry.key = key;
                    let ghost s0 = self.ask_side.0;
                    proof {
                        let os = self.orders@; let n = os.len() as int;
                        lemma_nonneg(os, n, Side::Ask, x, key.1);
                        if s0.lv().contains_key(key.1) { lemma_cnt_le_vol(os, n, Side::Ask, x, key.1); }
                    }

                    self.ask_side.insert_order(
                        key,
                        order_entry.order.order_id,
                        order_entry.order.vol,
                    );
                    proof {
                        lemma_insert_wf(self.orders@, s0, Side::Ask, x, *order_entry, self.ask_side.0);
                        lemma_unexclude_other(self.orders@, self.bid_side.0, Side::Bid, x, *order_entry);
                    }
                }
            }
        }
        proof {
            if order_entry.order.status == Status::Filled {
                lemma_unexclude_other(self.orders@, self.bid_side.0, Side::Bid, x, *order_entry);
                lemma_unexclude_other(self.orders@, self.ask_side.0, Side::Ask, x, *order_entry);
            }
        }
    }
}

impl Book {
    spec fn replace_pre(&self, e: OrderEntry, p: Price, v: Vol) -> bool {
        &&& v >= 1 && 0 < p < u32::MAX
        &&& self.trade_vol as int + v <= u32::MAX
        &&& self.side_of(e.key.0).sv() + v <= u32::MAX
        &&& !self.side_of(e.key.0).om().remove((e.key.1, e.key.2)).contains_key((Self::pkey(e.key.0, p), self.t))
    }
    fn modify_order(&mut self, order_id: OrderId, new_price: Option<Price>, new_vol: Option<Price>)
        requires
            old(self).wfx(-1), order_id < old(self).orders@.len(),
            old(self).orders@[order_id as int].order.status == Status::Active ==> {
                let e = old(self).orders@[order_id as int];
                match (new_price, new_vol) {
                    (None, None) => true,
                    (None, Some(v)) => v >= 1 && (v >= e.order.vol ==> old(self).replace_pre(e, e.order.price, v) ),
                    (Some(p), None) => old(self).replace_pre(e, p, e.order.vol),
                    (Some(p), Some(v)) => old(self).replace_pre(e, p, v),
                }
            },
            old(self).orders@[order_id as int].order.status == Status::Active ==> 0 < old(self).orders@[order_id as int].order.price < u32::MAX,
        ensures
            final(self).wfx(-1), final(self).orders@.len() == old(self).orders@.len(),
            // [C04.noop] / [C06.nothing_to_change]
            (old(self).orders@[order_id as int].order.status != Status::Active || (new_price is None && new_vol is None)) ==> final(self).obs_eq(*old(self)),
            // [C06.only_volume] a pure reduction keeps the queue
            (old(self).orders@[order_id as int].order.status == Status::Active && new_price is None && new_vol is Some && new_vol->0 < old(self).orders@[order_id as int].order.vol) ==>
                final(self).orders@ == old(self).orders@.update(order_id as int, OrderEntry { order: Order { vol: new_vol->0, ..old(self).orders@[order_id as int].order }, key: old(self).orders@[order_id as int].key })
                && final(self).bid_side.0.om() == old(self).bid_side.0.om() && final(self).ask_side.0.om() == old(self).ask_side.0.om()
                && final(self).trades@ == old(self).trades@,
            // [C06.identity]
            final(self).orders@[order_id as int].order.order_id == order_id && final(self).orders@[order_id as int].order.trader_id == old(self).orders@[order_id as int].order.trader_id
                && final(self).orders@[order_id as int].order.arr_time == old(self).orders@[order_id as int].order.arr_time
                && final(self).orders@[order_id as int].order.start_vol == old(self).orders@[order_id as int].order.start_vol,
    {
        let mut order_entry = self.orders[order_id];

        if order_entry.order.status == Status::Active {
            match (new_price, new_vol) {
                (None, None) => (),
                (None, Some(v)) => {
                    if v < order_entry.order.vol {
                        let reduce_vol = order_entry.order.vol - v;
                        self.reduce_order_vol(&mut order_entry, reduce_vol);
                    } else {
                        let p = order_entry.order.price;
                        self.replace_order(&mut order_entry, p, v)
                    }
                }
                (Some(p), None) => {
                    let v = order_entry.order.vol;
                    self.replace_order(&mut order_entry, p, v);
                }
                (Some(p), Some(v)) => self.replace_order(&mut order_entry, p, v),
            }
        }

        proof { assert(self.orders@.update(order_id as int, self.orders@[order_id as int]) =~= self.orders@); }
        self.orders[order_id] = order_entry;
    }
}

// the cheapest level of the volume map is the price of the head of the queue
proof fn lemma_touch_level(os: Seq<OrderEntry>, s: OrderBookSide, sd: Side)
    requires side_wf(os, s, sd, -1)
    ensures
        s.lv().dom() =~= Set::empty() <==> s.om().dom() =~= Set::empty(),
        !(s.om().dom() =~= Set::empty()) ==> is_min_key(s.lv(), min_k(s.om()).0) && min_p(s.lv()) == min_k(s.om()).0,
{
    broadcast use axiom_key_le_u32, axiom_key_le_pair;
    let n = os.len() as int;
    lemma_best(os, s, sd, -1);
    if s.om().dom() =~= Set::empty() {
        if !(s.lv().dom() =~= Set::empty()) {
            let p = choose|p: Price| s.lv().dom().contains(p);
            assert(s.lv().contains_key(p));
            lemma_cnt_pos(os, n, sd, -1, p);
            let i = choose|i: int| 0 <= i < n && rs(os, i, sd, -1) && os[i].key.1 == p;
            assert(s.om().contains_key((os[i].key.1, os[i].key.2)));
            assert(s.om().dom().contains((os[i].key.1, os[i].key.2)));
        }
    } else {
        let k = min_k(s.om()); let b = s.om()[k] as int;
        lemma_member(os, n, sd, -1, b);
        assert(lvl_cnt(os, n, sd, -1, k.0) > 0);
        assert(s.lv().contains_key(k.0));
        assert(s.lv().dom().contains(k.0));
        assert forall|p2: Price| #[trigger] s.lv().contains_key(p2) implies key_le(k.0, p2) by {
            lemma_cnt_pos(os, n, sd, -1, p2);
            let i = choose|i: int| 0 <= i < n && rs(os, i, sd, -1) && os[i].key.1 == p2;
            assert(s.om().contains_key((os[i].key.1, os[i].key.2)));
            assert(key_le(k, (os[i].key.1, os[i].key.2)));
        }
        assert(is_min_key(s.lv(), k.0));
        lemma_min_p_unique(s.lv());
    }
}

impl Book {
    spec fn touch_ask(os: Seq<OrderEntry>) -> Price { if has_resting(os, Side::Ask, -1) { os[best(os, Side::Ask, -1)].order.price } else { u32::MAX } }
    spec fn touch_bid(os: Seq<OrderEntry>) -> Price { if has_resting(os, Side::Bid, -1) { os[best(os, Side::Bid, -1)].order.price } else { 0u32 } }

    fn bid_ask(&self) -> (r: (Price, Price))
        requires self.wfx(-1)
        ensures r == (Self::touch_bid(self.orders@), Self::touch_ask(self.orders@))          // [C02.touch]
    {
        proof { lemma_best(self.orders@, self.ask_side.0, Side::Ask, -1); lemma_best(self.orders@, self.bid_side.0, Side::Bid, -1); }
        (self.bid_side.best_price(), self.ask_side.best_price())
    }
    fn ask_vol(&self) -> (r: Vol)
        requires self.wfx(-1)
        ensures r == tot_vol(self.orders@, self.orders@.len() as int, Side::Ask, -1)        // [C02.total]
    {
        self.ask_side.vol()
    }
    fn ask_best_vol_and_orders(&self) -> (r: (Vol, OrderCount))
        requires self.wfx(-1)
        ensures r == (if has_resting(self.orders@, Side::Ask, -1) {                          // [C02.touch_volume]
                let p = self.orders@[best(self.orders@, Side::Ask, -1)].key.1;
                (lvl_vol(self.orders@, self.orders@.len() as int, Side::Ask, -1, p) as u32, lvl_cnt(self.orders@, self.orders@.len() as int, Side::Ask, -1, p) as u32)
            } else { (0u32, 0u32) })
    {
        proof { lemma_best(self.orders@, self.ask_side.0, Side::Ask, -1); lemma_touch_level(self.orders@, self.ask_side.0, Side::Ask); }
        self.ask_side.best_vol_and_orders()
    }
}

// ---------------- rebuild on load (C07) ----------------
spec fn side_wf_n(os: Seq<OrderEntry>, n: int, s: OrderBookSide, sd: Side) -> bool {
    &&& forall|i: int| 0 <= i < n && rs(os, i, sd, -1) ==> (#[trigger] os[i]).order.vol >= 1
            && s.om().contains_key((os[i].key.1, os[i].key.2)) && s.om()[(os[i].key.1, os[i].key.2)] == i
    &&& forall|k: (Price, Nanos)| #[trigger] s.om().contains_key(k) ==> 0 <= s.om()[k] < n && rs(os, s.om()[k] as int, sd, -1) && (os[s.om()[k] as int].key.1, os[s.om()[k] as int].key.2) == k
    &&& forall|p: u32| #[trigger] s.lv().contains_key(p) <==> lvl_cnt(os, n, sd, -1, p) > 0
    &&& forall|p: u32| #[trigger] s.lv().contains_key(p) ==> s.lv()[p].0 == lvl_vol(os, n, sd, -1, p) && s.lv()[p].1 == lvl_cnt(os, n, sd, -1, p)
    &&& s.sv() == tot_vol(os, n, sd, -1)
}
// what a saved order list must satisfy (it does, if it was the order list of a wf book): distinct keys, volumes, bounded totals
spec fn orders_ok(os: Seq<OrderEntry>) -> bool {
    &&& ids_wf(os) && os.len() <= usize::MAX
    &&& forall|i: int| 0 <= i < os.len() && (#[trigger] os[i]).order.status == Status::Active ==> os[i].order.vol >= 1
    &&& forall|i: int, j: int| 0 <= i < j < os.len() && os[i].order.status == Status::Active && os[j].order.status == Status::Active && os[i].key.0 == os[j].key.0
            ==> (#[trigger] os[i].key.1, os[i].key.2) != (#[trigger] os[j].key.1, os[j].key.2)
    &&& tot_vol(os, os.len() as int, Side::Ask, -1) <= u32::MAX && tot_vol(os, os.len() as int, Side::Bid, -1) <= u32::MAX
}
proof fn lemma_tot_mono(os: Seq<OrderEntry>, n: int, m: int, sd: Side)
    requires 0 <= n <= m <= os.len()
    ensures tot_vol(os, n, sd, -1) <= tot_vol(os, m, sd, -1)
    decreases m - n
{ if n < m { lemma_tot_mono(os, n, m - 1, sd); lemma_nonneg(os, m - 1, sd, -1, 0); } }
proof fn lemma_next_insert(os: Seq<OrderEntry>, n: int, s0: OrderBookSide, sd: Side, s1: OrderBookSide)
    requires
        side_wf_n(os, n, s0, sd), 0 <= n < os.len(), n <= usize::MAX, rs(os, n, sd, -1), os[n].order.vol >= 1,
        !s0.om().contains_key((os[n].key.1, os[n].key.2)),
        s1.om() == s0.om().insert((os[n].key.1, os[n].key.2), n as usize),
        s1.sv() == s0.sv() + os[n].order.vol, s0.sv() + os[n].order.vol <= u32::MAX,
        s1.lv() == s0.lv().insert(os[n].key.1, if s0.lv().contains_key(os[n].key.1) { ((s0.lv()[os[n].key.1].0 + os[n].order.vol) as u32, (s0.lv()[os[n].key.1].1 + 1) as u32) } else { (os[n].order.vol, 1u32) }),
    ensures side_wf_n(os, n + 1, s1, sd)
{
    let p0 = os[n].key.1;
    lemma_nonneg(os, n, sd, -1, p0);
    if s0.lv().contains_key(p0) { assert(s0.lv()[p0].1 == lvl_cnt(os, n, sd, -1, p0) && s0.lv()[p0].0 == lvl_vol(os, n, sd, -1, p0)); }
    assert forall|i: int| 0 <= i < n + 1 && rs(os, i, sd, -1) implies (#[trigger] os[i]).order.vol >= 1
            && s1.om().contains_key((os[i].key.1, os[i].key.2)) && s1.om()[(os[i].key.1, os[i].key.2)] == i by {
        if i < n { assert(s0.om().contains_key((os[i].key.1, os[i].key.2))); assert((os[i].key.1, os[i].key.2) != (os[n].key.1, os[n].key.2)); }
    }
    assert forall|k: (Price, Nanos)| #[trigger] s1.om().contains_key(k) implies 0 <= s1.om()[k] < n + 1 && rs(os, s1.om()[k] as int, sd, -1) && (os[s1.om()[k] as int].key.1, os[s1.om()[k] as int].key.2) == k by {
        if k != (os[n].key.1, os[n].key.2) { assert(s0.om().contains_key(k)); }
    }
    assert forall|p: u32| #[trigger] s1.lv().contains_key(p) <==> lvl_cnt(os, n + 1, sd, -1, p) > 0 by {
        assert(s0.lv().contains_key(p) <==> lvl_cnt(os, n, sd, -1, p) > 0);
    }
    assert forall|p: u32| #[trigger] s1.lv().contains_key(p) implies s1.lv()[p].0 == lvl_vol(os, n + 1, sd, -1, p) && s1.lv()[p].1 == lvl_cnt(os, n + 1, sd, -1, p) by {
        assert(s0.lv().contains_key(p) ==> s0.lv()[p].0 == lvl_vol(os, n, sd, -1, p) && s0.lv()[p].1 == lvl_cnt(os, n, sd, -1, p));
        lemma_nonneg(os, n, sd, -1, p);
        if !s0.lv().contains_key(p) { lemma_cnt0_vol0(os, n, sd, -1, p); }
        lemma_cnt_le_vol_n(os, n, sd, p);
    }
}
proof fn lemma_cnt_le_vol_n(os: Seq<OrderEntry>, n: int, sd: Side, p: u32)
    requires 0 <= n <= os.len(), forall|i: int| 0 <= i < n && rs(os, i, sd, -1) ==> (#[trigger] os[i]).order.vol >= 1
    ensures lvl_cnt(os, n, sd, -1, p) <= lvl_vol(os, n, sd, -1, p)
    decreases n
{ if n > 0 { lemma_cnt_le_vol_n(os, n - 1, sd, p); } }
proof fn lemma_next_skip(os: Seq<OrderEntry>, n: int, s: OrderBookSide, sd: Side)
    requires side_wf_n(os, n, s, sd), 0 <= n < os.len(), !rs(os, n, sd, -1)
    ensures side_wf_n(os, n + 1, s, sd)
{
    assert forall|p: u32| #[trigger] s.lv().contains_key(p) <==> lvl_cnt(os, n + 1, sd, -1, p) > 0 by { assert(s.lv().contains_key(p) <==> lvl_cnt(os, n, sd, -1, p) > 0); }
}

pub struct OrderBookState {
    t: Nanos,
    tick_size: Price,
    trade_vol: Vol,
    orders: Vec<OrderEntry>,
    trades: Vec<Trade>,
    trading: bool,
}
pub struct OrderBookConversionErrror;

impl Book {
    fn try_from(state: OrderBookState) -> (res: Result<Self, OrderBookConversionErrror>)
        requires orders_ok(state.orders@)
        ensures res matches Ok(b) && b.wfx(-1)
            && b.orders@ == state.orders@ && b.trades@ == state.trades@ && b.t == state.t && b.tick_size == state.tick_size && b.trade_vol == state.trade_vol && b.trading == state.trading,
    {
        let mut bid_side = BidSide::default();
        let mut ask_side = AskSide::default();
        let ghost os = state.orders@;

        for OrderEntry { order, key } in it: state.orders.iter()
            invariant
                os == state.orders@, orders_ok(os),
                it.seq().len() == os.len(), forall|j: int| 0 <= j < it.seq().len() ==> *it.seq()[j] == os[j],
                side_wf_n(os, it.index@ as int, bid_side.0, Side::Bid), side_wf_n(os, it.index@ as int, ask_side.0, Side::Ask),
        {
            let ghost n = it.index@ as int;
            let ghost b0 = bid_side.0; let ghost a0 = ask_side.0;
            proof {
                lemma_tot_mono(os, n + 1, os.len() as int, Side::Bid); lemma_tot_mono(os, n + 1, os.len() as int, Side::Ask);
                lemma_nonneg(os, n, Side::Bid, -1, key.1); lemma_nonneg(os, n, Side::Ask, -1, key.1);
                lemma_cnt_le_vol_n(os, n, Side::Bid, key.1); lemma_cnt_le_vol_n(os, n, Side::Ask, key.1);
                // a key already in the index belongs to an earlier active order of the same side: excluded by orders_ok
                if b0.om().contains_key((key.1, key.2)) && rs(os, n, Side::Bid, -1) { let j = b0.om()[(key.1, key.2)] as int; assert(rs(os, j, Side::Bid, -1) && j < n); }
                if a0.om().contains_key((key.1, key.2)) && rs(os, n, Side::Ask, -1) { let j = a0.om()[(key.1, key.2)] as int; assert(rs(os, j, Side::Ask, -1) && j < n); }
            }
            if order.status == Status::Active {
                match order.side {
                    Side::Bid => bid_side.insert_order(*key, order.order_id, order.vol),
                    Side::Ask => ask_side.insert_order(*key, order.order_id, order.vol),
                }
            }
            proof {
                if rs(os, n, Side::Bid, -1) { lemma_next_insert(os, n, b0, Side::Bid, bid_side.0); } else { lemma_next_skip(os, n, b0, Side::Bid); }
                if rs(os, n, Side::Ask, -1) { lemma_next_insert(os, n, a0, Side::Ask, ask_side.0); } else { lemma_next_skip(os, n, a0, Side::Ask); }
            }
        }

        Ok(Self {
            t: state.t,
            tick_size: state.tick_size,
            trade_vol: state.trade_vol,
            ask_side,
            bid_side,
            orders: state.orders,
            trades: state.trades,
            trading: state.trading,
        })
    }
}

pub struct BookL<const LEVELS: usize> { b: Book }
impl<const LEVELS: usize> BookL<LEVELS> {
    // volume and count resting at ask price p, from the order list
    spec fn ask_level(os: Seq<OrderEntry>, p: Price) -> (Vol, OrderCount) {
        (lvl_vol(os, os.len() as int, Side::Ask, -1, p) as u32, lvl_cnt(os, os.len() as int, Side::Ask, -1, p) as u32)
    }
    fn bid_ask(&self) -> (r: (Price, Price)) requires self.b.wfx(-1) ensures r == (Book::touch_bid(self.b.orders@), Book::touch_ask(self.b.orders@)) { self.b.bid_ask() }

    fn ask_levels(&self) -> (r: [(Vol, OrderCount); LEVELS])
        requires self.b.wfx(-1), LEVELS * self.b.tick_size <= u32::MAX, self.b.tick_size >= 1,
        ensures forall|i: int| 0 <= i < LEVELS ==> #[trigger] r@[i]                                   // [C02.levels]
            == Self::ask_level(self.b.orders@, ((Book::touch_ask(self.b.orders@) + i * self.b.tick_size) % 0x1_0000_0000) as u32),
    {
        let start = self.bid_ask().1;
        core::array::from_fn(|i: usize| -> (res: (Vol, OrderCount))
            requires i < LEVELS
            ensures res == Self::ask_level(self.b.orders@, ((start + i * self.b.tick_size) % 0x1_0000_0000) as u32)
        {
            proof {
                assert(i * self.b.tick_size <= LEVELS * self.b.tick_size) by (nonlinear_arith) requires i < LEVELS, self.b.tick_size >= 1;
                assert(i <= LEVELS * self.b.tick_size) by (nonlinear_arith) requires i < LEVELS, self.b.tick_size >= 1;
                let p = ((start + i * self.b.tick_size) % 0x1_0000_0000) as u32;
                let os = self.b.orders@; let n = os.len() as int; let sd = self.b.ask_side.0;
                lemma_nonneg(os, n, Side::Ask, -1, p);
                lemma_cnt_le_vol(os, n, Side::Ask, -1, p);
                if !sd.lv().contains_key(p) { lemma_cnt0_vol0(os, n, Side::Ask, -1, p); }
            }
            self.b.ask_side.vol_and_orders_at_price(
                start.wrapping_add(Price::try_from(i).unwrap() * self.b.tick_size),
            )
        })
    }
}
// every resting order has volume >= 1, so counts are bounded by volumes
proof fn lemma_cnt_le_vol(os: Seq<OrderEntry>, n: int, sd: Side, x: int, p: u32)
    requires n <= os.len(), forall|i: int| 0 <= i < os.len() && rs(os, i, sd, x) ==> (#[trigger] os[i]).order.vol >= 1
    ensures lvl_cnt(os, n, sd, x, p) <= lvl_vol(os, n, sd, x, p)
    decreases n
{ if n > 0 { lemma_cnt_le_vol(os, n - 1, sd, x, p); } }
fn match_orders(t: Nanos, agg_order: &mut Order, pass_order: &mut Order, trades: &mut Vec<Trade>) -> (r: Vol)
    ensures
        r == (if old(agg_order).vol <= old(pass_order).vol { old(agg_order).vol } else { old(pass_order).vol }),
        *final(agg_order) == fill(*old(agg_order), r, t),
        *final(pass_order) == fill(*old(pass_order), r, t),
        final(trades)@ == old(trades)@.push(Trade { t, side: old(pass_order).side, price: old(pass_order).price, vol: r,
            active_order_id: old(agg_order).order_id, passive_order_id: old(pass_order).order_id }),
{
    broadcast use axiom_key_le_u32;
    let trade_vol = min(agg_order.vol, pass_order.vol);
    agg_order.vol -= trade_vol;
    pass_order.vol -= trade_vol;
    trades.push(Trade {
        t,
        side: pass_order.side,
        price: pass_order.price,
        vol: trade_vol,
        active_order_id: agg_order.order_id,
        passive_order_id: pass_order.order_id,
    });
    if pass_order.vol == 0 {
        pass_order.end_time = t;
        pass_order.status = Status::Filled;
    };
    if agg_order.vol == 0 {
        agg_order.end_time = t;
        agg_order.status = Status::Filled;
    };

    trade_vol
}
}
fn main(){}
