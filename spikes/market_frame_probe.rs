use vstd::prelude::*;
verus! {
pub ghost struct BookView { pub t: int, pub rest: int }
#[verifier::external_body] pub struct OrderBook { _p: u8 }
impl OrderBook {
    pub uninterp spec fn view(&self) -> BookView;
    pub uninterp spec fn ref_cancel(v: BookView, id: usize) -> BookView;
    #[verifier::external_body] fn cancel_order(&mut self, order_id: usize) ensures final(self).view() == Self::ref_cancel(old(self).view(), order_id) { unimplemented!() }
    #[verifier::external_body] fn set_time(&mut self, t: u64) ensures final(self).view() == (BookView { t: t as int, ..old(self).view() }) { unimplemented!() }
}
pub struct Market<const ASSETS: usize> { order_books: [OrderBook; ASSETS] }
impl<const ASSETS: usize> Market<ASSETS> {
    fn cancel_order(&mut self, order_id: (usize, usize))
        requires order_id.0 < ASSETS
        ensures
            final(self).order_books@[order_id.0 as int].view() == OrderBook::ref_cancel(old(self).order_books@[order_id.0 as int].view(), order_id.1),
            forall|j: int| 0 <= j < ASSETS && j != order_id.0 ==> final(self).order_books@[j] == old(self).order_books@[j],
    {
        self.order_books[order_id.0].cancel_order(order_id.1)
    }
    fn set_time(&mut self, t: u64)
        ensures forall|j: int| 0 <= j < ASSETS ==> final(self).order_books@[j].view() == (BookView { t: t as int, ..old(self).order_books@[j].view() }),
    {
        for i in 0..ASSETS
            invariant
                forall|j: int| 0 <= j < i ==> self.order_books@[j].view() == (BookView { t: t as int, ..old(self).order_books@[j].view() }),
                forall|j: int| i <= j < ASSETS ==> self.order_books@[j] == old(self).order_books@[j],
        {
            let book = &mut self.order_books[i];
            book.set_time(t)
        }
    }
}
}
fn main(){}
