use bourse_book::types::{Side, Status};
use bourse_book::OrderBook;
use bourse_de::agents::{Agent, MomentumAgent, MomentumParams, NoiseAgent, NoiseAgentParams};
use bourse_de::agents::common::cancel_live_orders;
use bourse_de::Env;
use rand::RngCore;
use rand_xoshiro::rand_core::SeedableRng;
use rand_xoshiro::Xoroshiro128StarStar;
use std::panic;

struct ZeroRng;
impl RngCore for ZeroRng {
    fn next_u32(&mut self) -> u32 { 0 }
    fn next_u64(&mut self) -> u64 { 0 }
    fn fill_bytes(&mut self, d: &mut [u8]) { for b in d { *b = 0; } }
    fn try_fill_bytes(&mut self, d: &mut [u8]) -> Result<(), rand::Error> { self.fill_bytes(d); Ok(()) }
}

fn main() {
    // C05: equal (price,time) keys
    let mut b: OrderBook = OrderBook::new(0, 1, true);
    let a0 = b.create_and_place_order(Side::Bid, 5, 1, Some(10)).unwrap();
    let a1 = b.create_and_place_order(Side::Bid, 7, 2, Some(10)).unwrap();
    println!("C05 after two bids same price same t: bid_vol={} best={:?}", b.bid_vol(), b.bid_best_vol_and_orders());
    b.set_time(1);
    b.create_and_place_order(Side::Ask, 12, 3, None).unwrap();
    println!("C05 after market sell 12: o0 status={:?} vol={} ; o1 status={:?} vol={} ; bid_vol={} bid_ask={:?} trades={}",
        b.order(a0).status, b.order(a0).vol, b.order(a1).status, b.order(a1).vol, b.bid_vol(), b.bid_ask(), b.get_trades().len());

    // C12: modify to off-grid price
    let mut b: OrderBook = OrderBook::new(0, 2, true);
    let id = b.create_and_place_order(Side::Bid, 5, 1, Some(10)).unwrap();
    b.set_time(1);
    b.modify_order(id, Some(11), None);
    println!("C12 tick=2 price after modify(11) = {} status={:?} bid_ask={:?}", b.order(id).price, b.order(id).status, b.bid_ask());

    // C02: mid price on crossed book
    let r = panic::catch_unwind(|| {
        let mut b: OrderBook = OrderBook::new(0, 1, false);
        b.create_and_place_order(Side::Bid, 5, 1, Some(20)).unwrap();
        b.set_time(1);
        b.create_and_place_order(Side::Ask, 5, 1, Some(10)).unwrap();
        println!("C02 crossed bid_ask={:?}", b.bid_ask());
        b.mid_price()
    });
    println!("C02 mid_price on crossed book -> {:?}", r.map_err(|_| "PANIC"));

    // C16a: p_cancel = 0 with a zero draw
    let mut env: Env = Env::new(0, 1, 1000, true);
    let mut rng = Xoroshiro128StarStar::seed_from_u64(1);
    let id = env.place_order(Side::Bid, 5, 1, Some(10)).unwrap();
    env.step(&mut rng);
    let live = cancel_live_orders(&mut env, &mut ZeroRng, &[id], 0.0);
    env.step(&mut rng);
    println!("C16 p_cancel=0, zero draw: kept={:?} status after step={:?}", live, env.order_status(id));

    // C16b: clamp abort with documented sigma=10, tick 2
    let r = panic::catch_unwind(|| {
        let mut env: Env = Env::new(0, 2, 1_000_000, true);
        let params = NoiseAgentParams { tick_size: 2, p_limit: 1.0, p_market: 0.0, p_cancel: 0.0, trade_vol: 100, price_dist_mu: 0.0, price_dist_sigma: 10.0 };
        let mut agents = NoiseAgent::new(0, 20, params);
        let mut rng = Xoroshiro128StarStar::seed_from_u64(101);
        for s in 0..200u32 { agents.update(&mut env, &mut rng); env.step(&mut rng); if s % 50 == 0 { } }
        env.get_orders().len()
    });
    println!("C16 noise agents sigma=10 tick=2, 200 steps -> {:?}", r.map_err(|_| "PANIC"));

    // C17: falling price with saturated demand
    let mut env: Env = Env::new(0, 1, 1_000_000, true);
    let mut rng = Xoroshiro128StarStar::seed_from_u64(7);
    let params = MomentumParams { tick_size: 1, p_cancel: 0.0, trade_vol: 10, decay: 1.0, demand: 1000.0, scale: 1.0, order_ratio: 0.0, price_dist_mu: 0.0, price_dist_sigma: 1.0 };
    let mut ag = MomentumAgent::new(100, 3, params);
    // harness quotes: bid 100 / ask 102, then 90 / 92 (falling), then 110/112 (rising)
    let q = |env: &mut Env, rng: &mut Xoroshiro128StarStar, bid: u32, ask: u32| {
        let ids: Vec<usize> = (0..env.get_orders().len()).collect();
        for i in ids { if env.order_status(i) == Status::Active { env.cancel_order(i); } }
        env.place_order(Side::Bid, 1000, 0, Some(bid)).unwrap();
        env.place_order(Side::Ask, 1000, 0, Some(ask)).unwrap();
        env.step(rng);
    };
    q(&mut env, &mut rng, 100, 102);
    ag.update(&mut env, &mut rng);
    let n0 = env.get_orders().len();
    q(&mut env, &mut rng, 90, 92);
    let n1 = env.get_orders().len();
    ag.update(&mut env, &mut rng);
    let created: Vec<_> = env.get_orders()[n1..].iter().map(|o| (o.side, o.trader_id)).collect();
    println!("C17 falling mid (M<0, |p| saturated): orders created by 3 momentum traders = {:?} (n0={})", created, n0);
    q(&mut env, &mut rng, 110, 112);
    let n2 = env.get_orders().len();
    ag.update(&mut env, &mut rng);
    let created: Vec<_> = env.get_orders()[n2..].iter().map(|o| (o.side, o.trader_id)).collect();
    println!("C17 rising mid (M>0): orders created = {:?}", created);
}
