#![feature(allocator_api)]
use vstd::prelude::*;
use std::collections::BTreeMap;
verus! {

pub uninterp spec fn key_le<K>(a: K, b: K) -> bool;
pub broadcast axiom fn axiom_key_le_u32(a: u32, b: u32)
    ensures #[trigger] key_le(a, b) == (a <= b);
pub broadcast axiom fn axiom_key_le_pair(a: (u32, u64), b: (u32, u64))
    ensures #[trigger] key_le(a, b) == (a.0 < b.0 || (a.0 == b.0 && a.1 <= b.1));

pub assume_specification<K: Ord, V, A: std::alloc::Allocator + Clone> [BTreeMap::<K, V, A>::first_key_value] (m: &BTreeMap<K, V, A>) -> (r: Option<(&K, &V)>)
    ensures
        r is None <==> m@.dom() =~= Set::<K>::empty(),
        r matches Some(kv) ==> m@.contains_key(*kv.0) && m@[*kv.0] == *kv.1
            && forall|k: K| m@.contains_key(k) ==> #[trigger] key_le(*kv.0, k),
;

pub type OrderId = usize;
pub type Nanos = u64;
pub type Price = u32;
pub type Vol = u32;
pub type OrderCount = u32;
#[derive(Clone, Copy, Debug)]
pub enum Side { Bid, Ask }
pub type OrderKey = (Side, u32, u64);

#[derive(Default)]
pub struct OrderBookSide {
    vol: Vol,
    volumes: BTreeMap<Price, (Vol, OrderCount)>,
    orders: BTreeMap<(Price, Nanos), OrderId>,
}

impl OrderBookSide {
    spec fn sv(&self) -> int { self.vol as int }
    spec fn lv(&self) -> Map<Price, (Vol, OrderCount)> { self.volumes@ }
    spec fn om(&self) -> Map<(Price, Nanos), OrderId> { self.orders@ }

    fn insert_order(&mut self, key: OrderKey, idx: OrderId, vol: Vol)
        requires
            old(self).sv() + vol <= u32::MAX,
            old(self).lv().contains_key(key.1) ==> old(self).lv()[key.1].0 + vol <= u32::MAX && old(self).lv()[key.1].1 < u32::MAX,
        ensures
            final(self).om() == old(self).om().insert((key.1, key.2), idx),
            final(self).sv() == old(self).sv() + vol,
            final(self).lv() == old(self).lv().insert(key.1,
                if old(self).lv().contains_key(key.1) { ((old(self).lv()[key.1].0 + vol) as u32, (old(self).lv()[key.1].1 + 1) as u32) } else { (vol, 1u32) }),
    {
        self.orders.insert((key.1, key.2), idx);
        match self.volumes.get_mut(&key.1) {
            Some(v) => {
                v.0 += vol;
                v.1 += 1;
            }
            None => {
                self.volumes.insert(key.1, (vol, 1));
            }
        };
        self.vol += vol;
    }
    fn remove_order(&mut self, key: OrderKey, vol: Vol)
        requires
            old(self).lv().contains_key(key.1),
            old(self).lv()[key.1].0 >= vol, old(self).lv()[key.1].1 >= 1,
            old(self).sv() >= vol,
        ensures
            final(self).om() == old(self).om().remove((key.1, key.2)),
            final(self).sv() == old(self).sv() - vol,
            final(self).lv() == (if old(self).lv()[key.1].1 == 1 { old(self).lv().remove(key.1) } else {
                old(self).lv().insert(key.1, ((old(self).lv()[key.1].0 - vol) as u32, (old(self).lv()[key.1].1 - 1) as u32)) }),
    {
        self.orders.remove(&(key.1, key.2));
        let vol_at_price = self.volumes.get_mut(&key.1).unwrap();
        vol_at_price.0 -= vol;
        vol_at_price.1 -= 1;
        if vol_at_price.1 == 0 {
            self.volumes.remove(&key.1);
        }
        self.vol -= vol;
    }
    fn remove_vol(&mut self, price: Price, vol: Vol)
        requires
            old(self).lv().contains_key(price),
            old(self).lv()[price].0 >= vol,
            old(self).sv() >= vol,
        ensures
            final(self).om() == old(self).om(),
            final(self).sv() == old(self).sv() - vol,
            final(self).lv() == old(self).lv().insert(price, ((old(self).lv()[price].0 - vol) as u32, old(self).lv()[price].1)),
    {
        self.volumes.get_mut(&price).unwrap().0 -= vol;
        self.vol -= vol;
    }
    fn best_price(&self) -> (r: Price)
        ensures
            self.om().dom() =~= Set::empty() ==> r == u32::MAX,
            !(self.om().dom() =~= Set::empty()) ==> exists|t: Nanos| self.om().contains_key((r, t)) && forall|k: (Price, Nanos)| self.om().contains_key(k) ==> r <= k.0,
    {
        broadcast use axiom_key_le_pair;
        match self.orders.first_key_value() {
            Some((k, _)) => k.0,
            None => Price::MAX,
        }
    }
    fn best_order_idx(&self) -> (r: Option<OrderId>)
        ensures
            r is None <==> self.om().dom() =~= Set::empty(),
            r matches Some(id) ==> exists|k: (Price, Nanos)| self.om().contains_key(k) && self.om()[k] == id
                && forall|k2: (Price, Nanos)| self.om().contains_key(k2) ==> (k.0 < k2.0 || (k.0 == k2.0 && k.1 <= k2.1)),
    {
        broadcast use axiom_key_le_pair;
        self.orders.first_key_value().map(|kv: (&(Price, Nanos), &OrderId)| { let (_, v) = kv; *v })
    }
    fn best_vol_and_orders(&self) -> (r: (Vol, OrderCount))
        ensures
            self.lv().dom() =~= Set::empty() ==> r == (0u32, 0u32),
            !(self.lv().dom() =~= Set::empty()) ==> exists|p: Price| self.lv().contains_key(p) && self.lv()[p] == r && forall|q: Price| self.lv().contains_key(q) ==> p <= q,
    {
        broadcast use axiom_key_le_u32;
        match self.volumes.first_key_value() {
            Some((_, v)) => *v,
            None => (0, 0),
        }
    }
}
}
fn main(){}
