use vstd::prelude::*;
verus! {
// abstract stand-ins for bourse_de::Env and rand::RngCore : opaque state
#[verifier::external_body]
pub struct Env { _p: u8 }
pub trait RngCore { spec fn st(&self) -> int; }

pub trait Agent {
    spec fn upd_env(&self, e: Env, r: int) -> Env;
    spec fn upd_rng(&self, e: Env, r: int) -> int;
    spec fn upd_self(&self, e: Env, r: int) -> Self where Self: Sized;
    fn update<R: RngCore>(&mut self, env: &mut Env, rng: &mut R) where Self: Sized
        ensures
            *final(env) == old(self).upd_env(*old(env), old(rng).st()),
            final(rng).st() == old(self).upd_rng(*old(env), old(rng).st()),
            *final(self) == old(self).upd_self(*old(env), old(rng).st());
}

pub struct S3<A: Agent, B: Agent, C: Agent> { a: A, pub b: B, c: C }

impl<A: Agent, B: Agent, C: Agent> S3<A,B,C> {
    fn update<R: RngCore>(&mut self, env: &mut Env, rng: &mut R)
        ensures ({
            let e0 = *old(env); let r0 = old(rng).st();
            let e1 = old(self).a.upd_env(e0, r0); let r1 = old(self).a.upd_rng(e0, r0);
            let e2 = old(self).b.upd_env(e1, r1); let r2 = old(self).b.upd_rng(e1, r1);
            let e3 = old(self).c.upd_env(e2, r2); let r3 = old(self).c.upd_rng(e2, r2);
            *final(env) == e3 && final(rng).st() == r3
            && final(self).a == old(self).a.upd_self(e0, r0)
            && final(self).b == old(self).b.upd_self(e1, r1)
            && final(self).c == old(self).c.upd_self(e2, r2)
        })
    {
        self.a.update(env, rng);
        self.b.update(env, rng);
        self.c.update(env, rng);
    }
}
}
fn main(){}
